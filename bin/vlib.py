"""Shared machinery of /verif/bin/check: build the harness against /repo's working tree, run TLC,
parse its output, apply known_findings.json, write evidence, print VIOLATION / KNOWN-FINDING lines."""
import json, os, re, shutil, subprocess, sys, time

VERIF = os.path.dirname(os.path.dirname(os.path.abspath(__file__)))
SPEC = os.path.join(VERIF, "spec")
HARNESS = os.path.join(VERIF, "harness")
AXV = os.environ.get("AXV_BIN") or os.path.join(HARNESS, "target", "debug", "axv")
WORK = os.path.join(VERIF, "work")
REPLAYS = os.path.join(VERIF, "replays")
EVIDENCE = os.path.join(VERIF, "evidence")
TLA_CP = "/opt/veriftools/tla/tla2tools.jar:/opt/veriftools/tla/CommunityModules-deps.jar"


class ToolError(Exception):
    """The machinery itself failed (build, TLC crash, timeout): exit 2, never a VIOLATION."""


def log(*a):
    print(*a, file=sys.stderr, flush=True)


def workdir(name):
    d = os.path.join(WORK, name)
    shutil.rmtree(d, ignore_errors=True)
    os.makedirs(d, exist_ok=True)
    return d


def build_harness():
    """cargo build (incremental) of the harness; the path dependency makes it rebuild /repo's working tree."""
    t0 = time.time()
    env = dict(os.environ, CARGO_NET_OFFLINE="true")
    p = subprocess.run(["cargo", "build", "--offline", "--quiet"], cwd=HARNESS, env=env,
                       stdout=subprocess.PIPE, stderr=subprocess.STDOUT, text=True)
    if p.returncode != 0:
        log(p.stdout[-4000:])
        raise ToolError("harness build failed")
    return time.time() - t0


def axv(args, timeout=600, check=True, env=None, stdin=None, mem_limit=None):
    """Runs the harness binary; returns (returncode, stdout)."""
    e = dict(os.environ)
    e.setdefault("RUST_BACKTRACE", "0")
    e.setdefault("AXV_KNOWN_PANICS", known_panics_file())
    if env:
        e.update(env)
    pre = None
    if mem_limit:
        import resource
        pre = lambda: resource.setrlimit(resource.RLIMIT_AS, (mem_limit, mem_limit))
    try:
        p = subprocess.run([AXV] + [str(a) for a in args], stdout=subprocess.PIPE, stderr=subprocess.PIPE,
                           text=True, timeout=timeout, env=e, input=stdin, preexec_fn=pre)
    except subprocess.TimeoutExpired:
        raise ToolError("harness timed out: axv " + " ".join(map(str, args)))
    if check and p.returncode != 0:
        log(p.stderr[-3000:])
        raise ToolError("harness failed (%d): axv %s" % (p.returncode, " ".join(map(str, args))))
    return p.returncode, p.stdout, p.stderr


def last_json(out):
    for line in reversed(out.strip().splitlines()):
        line = line.strip()
        if line.startswith("{"):
            return json.loads(line)
    raise ToolError("no JSON summary in harness output")


_unesc = re.compile(r"\\(.)")


def tla_unescape(s):
    return _unesc.sub(lambda m: {"n": "\n", "t": "\t"}.get(m.group(1), m.group(1)), s)


class TlcResult:
    def __init__(self):
        self.generated = 0
        self.distinct = 0
        self.depth = 0
        self.ok = False            # "No error has been found"
        self.violated = None       # name of violated invariant / property
        self.postcondition_false = False
        self.deadlock = False
        self.error_text = ""
        self.printed = []          # PrintT payloads with our tags
        self.output = ""
        self.wall = 0.0
        self.zero_coverage = []
        self.trace = []            # counterexample states (text)


def run_tlc(module, cfg, workers=4, timeout=900, env=None, xmx="6g", dfs=False, coverage=False, simulate=None,
            tags=("REPLAY", "CASE", "REJECTED", "USED"), name=None):
    """Runs TLC on spec/<module>.tla with config file cfg (path).  Raises ToolError on crashes/timeouts."""
    name = name or (module + "-" + os.path.basename(cfg))
    meta = workdir("tlc-%s-%d" % (name, os.getpid()))   # per process: several checks may validate the same pool seed at the same time
    opts = "-Xss1g -Xmx%s -XX:+UseParallelGC" % xmx
    if dfs:
        opts += " -Dtlc2.tool.queue.IStateQueue=StateDeque"
    e = dict(os.environ, JAVA_TOOL_OPTIONS=opts)
    if env:
        e.update({k: str(v) for k, v in env.items()})
    cmd = ["java", "-cp", TLA_CP, "tlc2.TLC", "-workers", str(workers), "-metadir", meta, "-cleanup",
           "-noGenerateSpecTE", "-config", cfg]
    if coverage:
        cmd += ["-coverage", "1"]
    if simulate:
        cmd += ["-simulate", simulate]
    cmd += [os.path.join(SPEC, module + ".tla")]
    t0 = time.time()
    try:
        p = subprocess.run(cmd, cwd=SPEC, env=e, stdout=subprocess.PIPE, stderr=subprocess.STDOUT, text=True,
                           timeout=timeout, errors="replace")
    except subprocess.TimeoutExpired:
        shutil.rmtree(meta, ignore_errors=True)
        raise ToolError("TLC timed out on %s (%ss)" % (name, timeout))
    shutil.rmtree(meta, ignore_errors=True)
    r = TlcResult()
    r.wall = time.time() - t0
    out = p.stdout
    r.output = out
    m = re.findall(r"(\d+) states generated, (\d+) distinct states found", out)
    if m:
        r.generated, r.distinct = int(m[-1][0]), int(m[-1][1])
    m = re.search(r"depth of the complete state graph search is (\d+)", out)
    if m:
        r.depth = int(m.group(1))
    r.ok = "No error has been found" in out
    m = re.search(r"Invariant (\S+) is violated", out)
    if m:
        r.violated = m.group(1)
    m = re.search(r"Temporal propert(y|ies) .*violated|Action property .* is violated", out)
    if m and not r.violated:
        r.violated = "temporal"
    m = re.search(r'"PROPERTY-VIOLATED",\s*"(\w+)"', out)
    if m and not r.violated:
        r.violated = m.group(1)          # Assert inside an action constraint (action properties checked per transition)
    if re.search(r"Postcondition \S+ .*is false", out) or "Postcondition" in out and "is false" in out:
        r.postcondition_false = True
    if "Deadlock reached" in out:
        r.deadlock = True
    tagre = re.compile(r'^<<\s*"(%s)",\s*(.*)>>\s*$' % "|".join(tags))
    for line in out.splitlines():
        mm = tagre.match(line)
        if mm:
            payload = mm.group(2).strip()
            if payload.startswith('"') and payload.endswith('"'):
                payload = tla_unescape(payload[1:-1])
            r.printed.append((mm.group(1), payload))
    # multi-line Print of REJECTED records: capture the block
    m = re.search(r'<<\s*"REJECTED",(.*?)>>\s+FALSE', out, re.S)
    if m:
        r.error_text = " ".join(m.group(1).split())[:1500]
    if coverage:
        for mm in re.finditer(r"^<(\w+) line (\d+), col \d+ to line \d+, col \d+ of module (\w+)>: (\d+):(\d+)", out, re.M):
            if int(mm.group(5)) == 0 and int(mm.group(4)) == 0:
                r.zero_coverage.append(mm.group(1))
    if not (r.ok or r.violated or r.postcondition_false or r.deadlock):
        # TLC itself failed (parse error, exception in the spec, ...)
        log(out[-3000:])
        raise ToolError("TLC failed on " + name)
    if r.violated or r.deadlock:
        idx = out.find("Error: The behavior up to this point is:")
        if idx >= 0:
            r.trace = out[idx:idx + 20000]
    return r


def load_known():
    p = os.path.join(VERIF, "known_findings.json")
    if not os.path.exists(p):
        return []
    return json.load(open(p))["findings"]


def save_replay(prop, name, content_or_path):
    os.makedirs(REPLAYS, exist_ok=True)
    dst = os.path.join(REPLAYS, "%s-%s" % (prop, name))
    if os.path.exists(str(content_or_path)) and isinstance(content_or_path, str) and "\n" not in content_or_path:
        shutil.copyfile(content_or_path, dst)
    else:
        with open(dst, "w") as f:
            f.write(content_or_path if isinstance(content_or_path, str) else json.dumps(content_or_path, indent=1))
    return dst


class Check:
    """Collects what a run covered and decides the exit code."""

    def __init__(self, prop, tier, seed, level):
        self.prop, self.tier, self.seed, self.level = prop, tier, seed, level
        self.t0 = time.time()
        self.violations = []       # (what, replay path)
        self.known_hits = []       # (deviation/finding id, what)
        self.cov = {"samples": []}
        self.assumptions = []
        self.notes = []

    def violation(self, what, replay_path):
        self.violations.append((what, replay_path))
        log("VIOLATION-DETAIL %s: %s" % (self.prop, what))

    def known(self, finding_id, what):
        self.known_hits.append((finding_id, what))

    def add(self, key, n):
        self.cov[key] = self.cov.get(key, 0) + n

    def sample(self, s):
        if len(self.cov["samples"]) < 6:
            self.cov["samples"].append(s)

    def finish(self):
        wall = time.time() - self.t0
        ev = {"property_id": self.prop, "tier": self.tier, "seed": self.seed, "level": self.level,
              "coverage": self.cov, "assumptions": self.assumptions, "wall_s": round(wall, 2),
              "violations": len(self.violations)}
        if self.notes:
            ev["coverage"]["notes"] = self.notes
        # a run that stopped at a violation may not have reached the point where it samples its inputs: the violations are its samples
        if not ev["coverage"].get("samples"):
            ev["coverage"]["samples"] = [{"kind": "violation", "value": {"what": w[:600], "replay": p_}} for w, p_ in self.violations[:3]] or [{"kind": "none", "value": "no input was executed"}]
        ev["coverage"]["known_findings_observed"] = [k for k, _ in self.known_hits]
        os.makedirs(EVIDENCE, exist_ok=True)
        with open(os.path.join(EVIDENCE, self.prop + ".json"), "w") as f:
            json.dump(ev, f, indent=1, default=str)
        seen = set()
        for fid, what in self.known_hits:
            if fid in seen:
                continue
            seen.add(fid)
            print("KNOWN-FINDING: property=%s %s: %s" % (self.prop, fid, what))
        for what, path in self.violations:
            print("VIOLATION property=%s replay=%s" % (self.prop, path))
        sys.stdout.flush()
        return 1 if self.violations else 0


def write_cfg(path, spec, constants, invariants=(), properties=(), postcondition=None, constraint=None, view=None,
              deadlock=False, init_next=None):
    lines = []
    if init_next:
        lines += ["INIT " + init_next[0], "NEXT " + init_next[1]]
    else:
        lines.append("SPECIFICATION " + spec)
    if constants:
        lines.append("CONSTANTS")
        for k, v in constants.items():
            lines.append("  %s = %s" % (k, v))
    for i in invariants:
        lines.append("INVARIANT " + i)
    for i in properties:
        lines.append("PROPERTY " + i)
    if postcondition:
        lines.append("POSTCONDITION " + postcondition)
    if constraint:
        lines.append("CONSTRAINT " + constraint)
    if view:
        lines.append("VIEW " + view)
    lines.append("CHECK_DEADLOCK " + ("TRUE" if deadlock else "FALSE"))
    with open(path, "w") as f:
        f.write("\n".join(lines) + "\n")
    return path


def tla_set(xs):
    return "{" + ", ".join(str(x) if not isinstance(x, str) else '"%s"' % x for x in xs) + "}"


def report_known(c, prop):
    """Re-runs the witness of every recorded (not repaired) finding that concerns this property.  A finding whose
    witness still shows the defect is reported as KNOWN-FINDING; one that no longer does is reported as stale."""
    for f in load_known():
        if f["status"] != "known" or (f["property"] != prop and prop not in f.get("also_affects", [])):
            continue
        w = os.path.join(VERIF, f["witness"])
        if not os.path.exists(w):
            continue
        wd = os.path.join(WORK, "witness-%s-%s" % (prop, f["id"]))
        try:
            p = subprocess.run([AXV, "probe", "--dir", wd, "--timeout", "30"], stdin=open(w), stdout=subprocess.PIPE,
                               stderr=subprocess.DEVNULL, text=True, timeout=120, env=dict(os.environ, AXV_KNOWN_PANICS=known_panics_file()))
            out = p.stdout
        except subprocess.TimeoutExpired:
            out = "HANG"
        shutil.rmtree(wd, ignore_errors=True)
        if re.search(f["marker"], out):
            c.known(f["id"], "%s [%s] witness=%s" % (f["what_fails"], f["call_site"], f["witness"]))
        else:
            c.notes.append("recorded finding %s no longer reproduces with its witness (stale entry?)" % f["id"])
            log("STALE-FINDING %s" % f["id"])


def known_panics_file():
    """Writes the panic signatures of the recorded findings where the harness reads them (AXV_KNOWN_PANICS)."""
    p = os.path.join(WORK, "known_panics.txt")
    os.makedirs(WORK, exist_ok=True)
    sigs = []
    for f in load_known():
        if f["status"] == "known":
            sigs += f.get("panic_sigs", [])
    text = "\n".join(sorted(set(sigs))) + "\n"
    try:
        if open(p).read() == text:
            return p
    except OSError:
        pass
    tmp = p + ".%d" % os.getpid()
    with open(tmp, "w") as fh:
        fh.write(text)
    os.replace(tmp, p)      # atomic: concurrent readers never see a partial file
    return p
