"""Shared runner for the SQL-level properties: record traces from the real engine with `axv db --kind K`,
validate them against Db.tla with TLC (DbTrace), model-check the transaction design (Txn.tla)."""
import json, os, shutil
import vlib
from vlib import Check, ToolError, run_tlc, axv, last_json, write_cfg, tla_set

AS_BUILT = ["UpdateStampsCreator", "NoWriteSetValidation", "CheckpointNotAtomic"]   # exact deviations recorded in known_findings.json


def dev_cfg(wd, devs, name):
    return write_cfg(os.path.join(wd, "DbTrace-%s.cfg" % name), "TSpec", {"Dev": tla_set(devs)},
                     invariants=["UniqueHolds"], postcondition="Accepted")


def validate(c, wd, trace, tag):
    """Accepts the trace if it is a behaviour of Db.tla under the as-built deviations or under any subset of them
    (so that repairing a recorded deviation never raises an alarm)."""
    tried = []
    subsets = [AS_BUILT, [], [AS_BUILT[0]], [AS_BUILT[1]], AS_BUILT[:2]]
    last = None
    for devs in subsets:
        r = run_tlc("DbTrace", dev_cfg(wd, devs, tag + "-" + "".join(d[0] for d in devs)), workers=1, dfs=True,
                    env={"TRACE": trace}, timeout=int(os.environ.get("VERIF_TLC_TIMEOUT", "1800")), name="DbTrace-%s-%d" % (tag, len(tried)))
        c.add("states", r.distinct)
        c.add("transitions", r.generated)
        tried.append(devs)
        if r.ok and not r.postcondition_false and not r.violated:
            return True, r, devs
        if last is None:
            last = r
    return False, last, AS_BUILT


def run_kind(c, wd, prop, kind, seed, segments, extra=()):
    tp = os.path.join(wd, "%s-%d.ndjson" % (kind, seed))
    sub = ["crash"] if kind.startswith("crash") else ["db", "--kind", kind]
    _, so, _ = axv(sub + ["--seed", seed, "--segments", segments, "--out", tp,
                          "--dir", os.path.join(wd, "db-" + kind)] + list(extra), timeout=3000)
    st = last_json(so)
    ok, r, devs = validate(c, wd, tp, "%s%d" % (kind, seed))
    c.add("traces_validated_against_impl", st["segments"])
    c.add("trace_events", st["events"])
    c.add("statements", st["stmts"])
    c.cov.setdefault("kinds", {}).setdefault(kind, {"segments": 0, "stmts": 0, "engine_errors": 0})
    k = c.cov["kinds"][kind]
    k["segments"] += st["segments"]; k["stmts"] += st["stmts"]; k["engine_errors"] += st["errors"]
    for key in ("nontrivial", "overlaps", "plan_pairs", "reopens", "vacuums", "configs", "inputs", "images", "nested_images", "recovering_images", "index_scans", "enumerated"):
        if key in st:
            c.add(key, st[key])
    if st.get("hung"):
        p = vlib.save_replay(prop, "%s-%d-hang.ndjson" % (kind, seed), tp)
        c.violation("a call did not return within the watchdog limit (kind %s)" % kind, p)
        return st
    if not ok:
        p = vlib.save_replay(prop, "%s-%d.ndjson" % (kind, seed), tp)
        what = r.error_text or ("invariant %s" % r.violated)
        c.violation("trace (kind %s) is not a behaviour of Db.tla; first unmatched event: %s" % (kind, what[:600]), p)
    if len(c.cov["samples"]) < 3:
        with open(tp) as f:
            evs = [json.loads(x) for x in f.readlines()[:40]]
        s = [{"ev": e["ev"], "s": e.get("s"), "sql": e.get("sql"), "out": (e.get("out") or {}).get("k")} for e in evs if e["ev"] == "stmt"][:6]
        c.sample({"kind": kind, "first_statements": s})
    return st


def model_check_txn(c, tier, which="MC_Txn.cfg"):
    r = run_tlc("Txn", os.path.join(vlib.SPEC, which), workers=8 if tier == "thorough" else 6, timeout=3000, coverage=True, xmx="12g")
    if not r.ok:
        raise ToolError("Txn.tla (ideal design) violates %s" % r.violated)
    c.add("states", r.distinct)
    c.add("transitions", r.generated)
    c.cov["mc_zero_coverage_actions"] = r.zero_coverage
    return r


def model_check_recovery(c, tier):
    """Recovery.tla: cache / log tail / durable pages / page zero / log, checkpoint and restart recovery split into the steps between
    which the process can die; Durable (C01) and ExactState (C01 + C02, convergence of repeated recovery for C08) for all
    interleavings of 2 transactions, 2 keys, 2 crashes, 1 checkpoint.  The repaired defects and two design mutations are
    separate constants: each must be refuted."""
    r = run_tlc("Recovery", os.path.join(vlib.SPEC, "MC_Recovery.cfg" if tier == "quick" else "MC_Recovery_thorough.cfg"), workers=8, timeout=3000, xmx="12g")
    if not r.ok:
        raise ToolError("Recovery.tla (ideal design) violates %s" % r.violated)
    c.add("states", r.distinct)
    c.add("transitions", r.generated)
    refuted = []
    for dev, inv in (("AbortLoggedAsCommit", "ExactState"), ("TruncateBeforeRecoveredPagesDurable", "ExactState"), ("RecoveryLogsReplay", "ExactState"),
                     ("MUT_AckWithoutForce", "Durable"), ("MUT_CheckpointTruncatesFirst", "Durable")):
        d = run_tlc("Recovery", os.path.join(vlib.SPEC, "MC_Recovery_dev_%s.cfg" % dev), workers=4)
        if d.violated != inv:
            raise ToolError("Recovery.tla with %s: expected a counterexample for %s, got %s" % (dev, inv, d.violated))
        refuted.append(dev)
    # RecoveryIds.tla: object identity across recovery (a re-created object keeps its logged id)
    r = run_tlc("RecoveryIds", os.path.join(vlib.SPEC, "MC_RecoveryIds.cfg"), workers=4, timeout=1800)
    if not r.ok:
        raise ToolError("RecoveryIds.tla (ideal design) violates %s" % r.violated)
    c.add("states", r.distinct)
    c.add("transitions", r.generated)
    d = run_tlc("RecoveryIds", os.path.join(vlib.SPEC, "MC_RecoveryIds_dev.cfg"), workers=4)
    if d.violated != "AlwaysOpens":
        raise ToolError("RecoveryIds.tla with RedoCreateDrawsFreshObjectId: expected a counterexample for AlwaysOpens, got %s" % d.violated)
    refuted.append("RedoCreateDrawsFreshObjectId")
    c.cov["recovery_design_mutations_refuted"] = refuted


def replay_trace(prop, path, seed):
    if os.path.basename(path).startswith("%s-soak-" % prop) or path.endswith(".json") and '"cmd": "axv soak' in open(path).read()[:4000]:
        # a soak replay file names the command that failed: run it again
        cmd = json.load(open(path))["cmd"].split()[1:]
        rc, so, _ = vlib.axv(cmd + ["--dir", os.path.join(vlib.workdir(prop.lower() + "-replay"), "soak")], timeout=1800, check=False)
        st = last_json(so) if rc == 0 else None
        if st is None or st["bad"] or st["differing"]:
            print("VIOLATION property=%s replay=%s" % (prop, path))
            return 1
        return 0
    c = Check(prop, "quick", seed, "model_checking")
    wd = vlib.workdir(prop.lower() + "-replay")
    ok, r, _ = validate(c, wd, path, "replay")
    shutil.rmtree(wd, ignore_errors=True)
    if not ok:
        print("VIOLATION property=%s replay=%s" % (prop, path))
        return 1
    return 0


def soak_leg(c, wd, tier, seed, prop):
    """axv soak: a table that does not fit the cache scanned thousands of times (more than 65536 evictions): the answer never
    changes and no scan panics, fails or hangs - the long behaviours of Cache.tla (any number of Evict / Load steps) on the code."""
    import json
    scans = 2400 if tier == "quick" else 12000
    cache = [16, 24, 12, 20][seed % 4]
    try:
        rc, so, _ = vlib.axv(["soak", "--scans", scans, "--cache", cache, "--dir", os.path.join(wd, "soak")], timeout=1800, check=False)
    except ToolError:
        rc, so = "timeout", ""
    st = None
    for line in reversed(so.splitlines() if so else []):
        if line.startswith("{"):
            st = json.loads(line); break
    if rc != 0 or st is None:
        rp = vlib.save_replay(prop, "soak-%d.json" % seed, {"cmd": "axv soak --scans %d --cache %d" % (scans, cache), "exit": str(rc)})
        c.violation("the soak run did not finish (exit %s): a scan hung or the process died" % rc, rp)
        return
    c.add("soak_scans", st["scans"]); c.add("soak_evictions_at_least", st["evictions_at_least"])
    c.add("statements", st["scans"])
    if st["bad"] or st["differing"]:
        rp = vlib.save_replay(prop, "soak-%d.json" % seed, dict(st, cmd="axv soak --scans %d --cache %d" % (scans, cache)))
        c.violation("under a cache of %d pages a scan failed or changed its answer after many evictions: %s" % (cache, "; ".join(st["bad"])[:400]), rp)
