"""C05 - query answers match SQL semantics.  Oracle: SqlEval.tla / SqlRel.tla (three-valued expressions, joins,
aggregates, DISTINCT, ORDER BY, LIMIT/OFFSET, DML row selection and counts) evaluated by TLC on every recorded statement."""
import _dbprop, dbcheck
PROP = "C05"
def run(tier, seed):
    return _dbprop.run(PROP, tier, seed, [("sql", 24, 400), ("exprs", 2, 8)],
        ["values: small integers, halves as doubles, ASCII text, booleans, NULL (TLC has 32-bit ints, no reals); AVG is compared only when it is a multiple of 1/2",
         "statement classes with a recorded finding are not generated here (RIGHT/FULL JOIN, HAVING, GROUP BY+ORDER BY, UPDATE on a table with a unique index): see known_findings.json",
         "expressions are printed with minimal parentheses under the documented binding powers (one fifth fully parenthesised as control)"],
        "each statement is one case; distinct_nontrivial = statements executed and validated (queries over 1-3 tables of 0-14 rows with NULLs and duplicates; DML followed by a full read-back)")
def replay(path, seed):
    return dbcheck.replay_trace(PROP, path, seed)
