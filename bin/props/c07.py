"""C07 - UNIQUE, PRIMARY KEY and NOT NULL always hold in committed data."""
import _dbprop, dbcheck
PROP = "C07"
def run(tier, seed):
    return _dbprop.run(PROP, tier, seed, [("uniq", 20, 300), ("txn", 8, 100)],
        ["acceptance rule = enabling condition of the DML action: a statement is rejected as a whole iff it would break a constraint in the transaction's view",
         "UPDATE of tables with a unique index and duplicate keys across open transactions are recorded findings and are exercised only by their witnesses"],
        "histories of insert / delete / re-insert / rollback / vacuum / CREATE UNIQUE INDEX on tables with single- and two-column constraints; the invariant UniqueHolds is evaluated on the committed state after every event; distinct_nontrivial = statements validated",
        mc=("MC_Txn.cfg", "MC_Txn_thorough.cfg"))
def replay(path, seed):
    return dbcheck.replay_trace(PROP, path, seed)
