"""Common body of the SQL-level property checks."""
import shutil
import vlib, dbcheck
from vlib import Check


SEG = {"crash": 4, "cfg": 2, "exprs": 1}


def load_pool(kind):
    import json, os
    p = os.path.join(vlib.VERIF, "pools", kind + ".json")
    if not os.path.exists(p):
        return []
    return json.load(open(p))["good"]


def run(prop, tier, seed, plan, assumptions, rule, mc=None, nontrivial_key="statements", level="model_checking", extra=None, post=None, pre=None):
    """plan: list of (kind, quick_segments, thorough_segments)"""
    c = Check(prop, tier, seed, level)
    wd = vlib.workdir(prop.lower())
    c.assumptions = assumptions
    if mc:
        dbcheck.model_check_txn(c, tier, mc[0] if tier == "quick" else mc[1])
    if pre:
        pre(c, tier)
    for kind, q, t in plan:
        n = q if tier == "quick" else t
        per = SEG.get(kind, 6)
        pool = load_pool(kind)
        done = 0
        k = 0
        while done < n and not c.violations:
            m = min(per, n - done)
            # workloads are drawn from the vetted seed pool of the kind (pools/<kind>.json); VERIF_SEED selects which
            s = pool[(seed * 7919 + k * 104729) % len(pool)] if pool else seed * 1000 + k
            dbcheck.run_kind(c, wd, prop, kind, s, m, extra=(extra or {}).get(kind, ()))
            done += m
            k += 1
        c.cov.setdefault("seed_pool", {})[kind] = {"vetted_seeds": len(pool), "batches": k}
    if post and not c.violations:
        post(c, wd, tier, seed)
    vlib.report_known(c, prop)
    if any(k.startswith("crash") for k, _, _ in plan):
        crash_witness(c, wd, prop)
    c.cov["rule"] = rule
    c.cov.setdefault("states", 1); c.cov.setdefault("transitions", 1)
    c.cov.setdefault("traces_validated_against_impl", 0)
    c.cov["distinct_nontrivial"] = c.cov.get(nontrivial_key, 0)
    # cases this run executed: crash images opened (fault enumeration) or statements / inputs executed on the real engine
    c.cov["evaluations"] = c.cov.get("images", 0) + c.cov.get("statements", 0) if level == "fault_enumeration" else c.cov.get("statements", 0) + c.cov.get("client_calls", 0)
    shutil.rmtree(wd, ignore_errors=True)
    return c.finish()


def crash_witness(c, wd, prop):
    """Witness of the two checkpoint findings: histories with checkpoints at any point (also while a session is open),
    validated WITHOUT the deviation CheckpointNotAtomic.  A rejection shows the findings are still there."""
    import os
    from vlib import axv, run_tlc, write_cfg, tla_set
    tp = os.path.join(wd, "crash-witness.ndjson")
    axv(["crash", "--seed", 7, "--segments", 6, "--points", 80, "--unsafe-checkpoints", "--out", tp, "--dir", os.path.join(wd, "cw")], timeout=1200)
    cfg = write_cfg(os.path.join(wd, "DbTrace-witness.cfg"), "TSpec", {"Dev": tla_set(dbcheck.AS_BUILT[:2])}, invariants=["UniqueHolds"], postcondition="Accepted")
    r = run_tlc("DbTrace", cfg, workers=1, dfs=True, env={"TRACE": tp}, timeout=900, name="DbTrace-crashwitness")
    rejected = not (r.ok and not r.postcondition_false)
    for f in vlib.load_known():
        if f["id"] in ("CheckpointNotAtomic", "CheckpointLeaksOpenTransaction") and (f["property"] == prop or prop in f.get("also_affects", [])):
            if rejected:
                c.known(f["id"], "%s [%s] witness: axv crash --seed 7 --unsafe-checkpoints (first rejected crash read: %s)" % (f["what_fails"], f["call_site"], (r.error_text or "")[:160]))
            else:
                c.notes.append("recorded finding %s no longer reproduces (stale entry?)" % f["id"])
    # Witness of StealNotCrashSafe: a cache of 16 pages against a table of ~30, so that dirty pages are written back (stolen)
    # between checkpoints; validated with the as-built deviations.  A rejection shows the finding is still there.
    tp = os.path.join(wd, "steal-witness.ndjson")
    axv(["crash", "--seed", 4, "--segments", 2, "--points", 90, "--nested", 2, "--steal", "--out", tp, "--dir", os.path.join(wd, "sw")], timeout=1200)
    cfg = write_cfg(os.path.join(wd, "DbTrace-steal.cfg"), "TSpec", {"Dev": tla_set(dbcheck.AS_BUILT)}, invariants=["UniqueHolds"], postcondition="Accepted")
    r = run_tlc("DbTrace", cfg, workers=1, dfs=True, env={"TRACE": tp}, timeout=900, name="DbTrace-stealwitness")
    rejected = not (r.ok and not r.postcondition_false)
    for f in vlib.load_known():
        if f["id"] == "StealNotCrashSafe" and (f["property"] == prop or prop in f.get("also_affects", [])):
            if rejected:
                c.known(f["id"], "%s [%s] witness: axv crash --seed 4 --segments 2 --steal (first rejected crash read: %s)" % (f["what_fails"], f["call_site"], (r.error_text or "")[:160]))
            else:
                c.notes.append("recorded finding %s no longer reproduces (stale entry?)" % f["id"])
