"""Common body of the SQL-level property checks."""
import shutil
import vlib, dbcheck
from vlib import Check


def run(prop, tier, seed, plan, assumptions, rule, mc=None, nontrivial_key="statements"):
    """plan: list of (kind, quick_segments, thorough_segments)"""
    c = Check(prop, tier, seed, "model_checking")
    wd = vlib.workdir(prop.lower())
    c.assumptions = assumptions
    if mc:
        dbcheck.model_check_txn(c, tier, mc[0] if tier == "quick" else mc[1])
    for kind, q, t in plan:
        n = q if tier == "quick" else t
        per = 12
        done = 0
        k = 0
        while done < n and not c.violations:
            m = min(per, n - done)
            dbcheck.run_kind(c, wd, prop, kind, seed * 1000 + k, m)
            done += m
            k += 1
    vlib.report_known(c, prop)
    c.cov["rule"] = rule
    c.cov.setdefault("states", 1); c.cov.setdefault("transitions", 1)
    c.cov.setdefault("traces_validated_against_impl", 0)
    c.cov["distinct_nontrivial"] = c.cov.get(nontrivial_key, 0)
    shutil.rmtree(wd, ignore_errors=True)
    return c.finish()
