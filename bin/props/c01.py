"""C01 - acknowledged commits survive a crash at any later instant."""
import _dbprop, dbcheck
PROP = "C01"
def run(tier, seed):
    return _dbprop.run(PROP, tier, seed, [('crash', 24, 160), ('alter', 6, 60)],
        ['disk model: every write the engine issues is atomic, durable and ordered when issued (the engine opens its files with O_DIRECT); torn or reordered writes are not explored', 'crash points: every prefix of the recorded write stream next to a sync / set_len / call boundary plus a seeded sample (quick), all prefixes (thorough); each image is opened by a fresh process under a 90 s watchdog', 'recorded findings: CheckpointNotAtomic (crash points inside Pager::flush are not constrained), CheckpointLeaksOpenTransaction (no checkpoint while a session is open)'],
        'history = DDL + autocommit statements + up to two interleaved sessions + checkpoints; image = database file and log as they were after the k-th write; non-trivial = at least one acknowledged commit lies before the crash point', mc=None, level='fault_enumeration', pre=dbcheck.model_check_recovery, nontrivial_key='nontrivial', extra={"crash": ["--points", "90" if tier == "quick" else "100000"]})
def replay(path, seed):
    return dbcheck.replay_trace(PROP, path, seed)
