"""C16 - any statement yields a result or an error - never a panic, never a hang."""
import _dbprop, dbcheck
PROP = "C16"
def _conc(c, wd, tier, seed):
    # statements queued behind a panicking one, from several client threads: every call returns, the pool keeps its workers
    import c14
    c14.conc_leg(c, wd, tier, seed, prop=PROP, n=2 if tier == "quick" else 12)
    if not c.violations:
        dbcheck.soak_leg(c, wd, tier, seed, PROP)   # long runs: counters, clock hand, anything that only breaks after tens of thousands of evictions
def _pool(c, tier):
    import c14
    c14.model_check_pool(c, tier)
def run(tier, seed):
    return _dbprop.run(PROP, tier, seed, [('fuzz', 16, 300), ('atom', 4, 40), ('sql', 6, 30)],
        ['inputs are sampled (random bytes through from_utf8_lossy, token soups, mutated valid statements, ill-typed statements, well-formed queries with LIMIT / OFFSET beyond the input); the specification supplies the admissible outcomes (result or error, state unchanged, pool alive)', 'every hostile input runs inside a session that is rolled back (or, in autocommit, is text that cannot be DML/DDL); contained panics whose signature is a recorded finding count as errors', 'each call runs under a 40 s watchdog in a separate engine thread; a leg with several client threads queues statements behind one that panics inside the executor'],
        'inputs = hostile statements executed; after each one the session is probed, rolled back, and three trivial statements plus a full read-back run', mc=None, level='exploration', nontrivial_key='inputs', post=_conc, pre=_pool)
def replay(path, seed):
    return dbcheck.replay_trace(PROP, path, seed)
