"""C16 - any statement yields a result or an error - never a panic, never a hang."""
import _dbprop, dbcheck
PROP = "C16"
def run(tier, seed):
    return _dbprop.run(PROP, tier, seed, [('fuzz', 16, 300), ('atom', 4, 40)],
        ['inputs are sampled (random bytes through from_utf8_lossy, token soups, mutated valid statements, ill-typed statements); the specification supplies the admissible outcomes (result or error, state unchanged, pool alive)', 'every hostile input runs inside a session that is rolled back (or, in autocommit, is text that cannot be DML/DDL); contained panics whose signature is a recorded finding count as errors', 'each call runs under a 40 s watchdog in a separate engine thread'],
        'inputs = hostile statements executed; after each one the session is probed, rolled back, and three trivial statements plus a full read-back run', mc=None, nontrivial_key='inputs')
def replay(path, seed):
    return dbcheck.replay_trace(PROP, path, seed)
