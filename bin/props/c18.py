"""C18 - row versions decode to the right values for every snapshot.
(M) Tuple.tla: abstract row (versions newest first + delete mark) and the stored chain (head + reverse deltas with full NULL
    sets); TLC checks exhaustively that the chain encodes exactly the versions (ChainRefines), that the snapshot-directed walk
    returns what the reader is entitled to (WalkIsEntitled) and that trimming preserves every reader at or above the horizon
    (TrimPreserves).  The shipped deviations are separate constants: each must be refuted by the ideal properties, and the
    as-built configuration must satisfy the properties that remain.
(R) TupleReplay.tla: every sequence Build, <= 2 Updates, [Delete], [Trim] over the small alphabet with the decode of every
    snapshot of the family; replayed through the real TupleBuilder / add_version_with / delete / vaccum_with /
    parse_for_snapshot with concrete typed values of all column types (keys 1-3).
(T) seeded rows of any schema (0-12 value columns), chains up to 8 updates, delete / clear / trim / re-read from bytes,
    decoded under random snapshots; TupleTrace.tla validates every event."""
import itertools, json, os, shutil
import vlib
from vlib import Check, ToolError, run_tlc, axv, last_json, write_cfg, tla_set

PROP = "C18"
AS_BUILT = ["UpdateStampsCreator", "OwnDeleteOfUpdatedRow", "DeltaWalkIgnoresOwn", "TrimCutsAtFirstOld"]
FINDING_OF = {"UpdateStampsCreator": "UpdateStampsCreator", "OwnDeleteOfUpdatedRow": "OwnDeleteOfUpdatedRow"}


def dev_sets():
    """as built first, then every smaller set (a repaired deviation must not alarm)"""
    out = [list(AS_BUILT)]
    for k in range(len(AS_BUILT) - 1, -1, -1):
        out += [list(x) for x in itertools.combinations(AS_BUILT, k)]
    return out


def model_check(c, tier):
    r = run_tlc("Tuple", os.path.join(vlib.SPEC, "MC_Tuple.cfg" if tier == "quick" else "MC_Tuple_thorough.cfg"), workers=8, timeout=3000)
    if not r.ok:
        raise ToolError("Tuple.tla (ideal design) fails: %s" % (r.violated or r.output[-800:]))
    c.add("states", r.distinct)
    c.add("transitions", r.generated)
    refuted = []
    for cfg, want in (("MC_Tuple_dev_trim.cfg", "TrimPreserves"), ("MC_Tuple_dev_owndel.cfg", "WalkIsEntitled")):
        got = run_tlc("Tuple", os.path.join(vlib.SPEC, cfg), workers=4).violated
        if got != want:
            raise ToolError("%s: expected a counterexample for %s, got %s" % (cfg, want, got))
        refuted.append(cfg[len("MC_Tuple_dev_"):-4])
    a = run_tlc("Tuple", os.path.join(vlib.SPEC, "MC_Tuple_asbuilt.cfg"), workers=4)
    if not a.ok:
        raise ToolError("as-built configuration of Tuple.tla fails %s" % a.violated)
    c.cov["design_mutations_refuted"] = refuted
    c.cov["as_built_states"] = a.distinct


def gen_behaviours(wd, tier, dev):
    consts = {"NV": 2, "Val": "{1}" if tier == "quick" else "{1, 2}", "Tid": "{1, 2}", "MaxUpd": 2, "Dev": tla_set(dev)}
    cfg = write_cfg(os.path.join(wd, "TupleReplay.cfg"), "RSpec", consts, invariants=["Emit", "EmitFamily"])
    r = run_tlc("TupleReplay", cfg, workers=1, timeout=3000, xmx="8g")
    if not r.ok:
        raise ToolError("TupleReplay failed: %s" % r.violated)
    fam = [p for t, p in r.printed if t == "USED"]
    beh = [p for t, p in r.printed if t == "REPLAY"]
    if not fam or not beh:
        raise ToolError("TupleReplay produced nothing")
    path = os.path.join(wd, "behaviours.ndjson")
    with open(path, "w") as f:
        f.write(fam[0] + "\n")
        for b in beh:
            f.write(b + "\n")
    return path, r, len(beh), beh, fam[0]


def replay_behaviours(c, tier, wd):
    first = None
    for dev in dev_sets():
        path, r, n, beh, fam = gen_behaviours(wd, tier, dev)
        out = os.path.join(wd, "replay-result.json")
        _, so, _ = axv(["tuple", "replay", "--in", path, "--out", out], timeout=3000)
        s = last_json(so)
        if first is None:
            first = (s, json.load(open(out)), r, beh, fam)
        if not s["divergences"]:
            if dev != AS_BUILT:
                c.notes.append("behaviours agree with Dev = %s (deviations %s no longer present)" % (dev, sorted(set(AS_BUILT) - set(dev))))
            c.cov["replay_dev"] = dev
            c.add("behaviours_replayed", s["behaviours"])
            c.add("traces_validated_against_impl", s["behaviours"])
            c.add("replay_decodes_compared", s["decodes"])
            c.add("distinct_nontrivial", s["older_version_decoded"])
            c.add("states", r.distinct)
            c.add("transitions", r.generated)
            c.sample({"kind": "behaviour", "value": {k: v for k, v in json.loads(beh[len(beh) // 2]).items() if k != "expect"}})
            return
        if tier == "quick" and dev == AS_BUILT and s["divergences"] and first[0]["divergences"] == s["behaviours"]:
            break   # everything diverges: not a repaired deviation
    s, res, r, beh, fam = first
    one = res["first"][0]
    p = vlib.save_replay(PROP, "behaviour.json", json.dumps({"family": json.loads(fam)["family"], "behaviour": one["behaviour"], "index": one["index"], "what": one["what"]}, indent=1))
    c.violation("replayed behaviour diverges: " + one["what"], p)


def validate(c, tp, wd, dev, name):
    cfg = write_cfg(os.path.join(wd, "TupleTrace-%s.cfg" % name), "TSpec", {"NV": 12, "Dev": tla_set(dev)}, invariants=["ChainOk"], postcondition="Accepted")
    r = run_tlc("TupleTrace", cfg, workers=1, dfs=True, env={"TRACE": tp}, timeout=1800, name="TupleTrace-" + name)
    c.add("states", r.distinct)
    c.add("transitions", r.generated)
    return r.ok and not r.postcondition_false and not r.violated, r


def traces(c, tier, seed, wd):
    rounds = 2 if tier == "quick" else 12
    rows = 300 if tier == "quick" else 1500
    for k in range(rounds):
        tp = os.path.join(wd, "tuple-trace-%d.ndjson" % k)
        _, so, _ = axv(["tuple", "trace", "--seed", seed * 100 + k, "--rows", rows, "--out", tp], timeout=1800)
        s = last_json(so)
        okdev, r0 = None, None
        for dev in dev_sets():
            ok, r = validate(c, tp, wd, dev, str(k))
            if r0 is None:
                r0 = r
            if ok:
                okdev = dev
                break
        if okdev is None:
            p = vlib.save_replay(PROP, "tuple-trace-%d.ndjson" % k, tp)
            c.violation("recorded tuple trace rejected: %s%s" % (r0.error_text or r0.violated, " / driver: %s" % s["failed"] if s.get("failed") else ""), p)
            return
        if okdev != AS_BUILT:
            c.notes.append("trace %d accepted with Dev = %s" % (k, okdev))
        c.add("traces_validated_against_impl", 1)
        c.add("trace_events", s["events"])
        c.add("trace_decodes_bound", s["decodes"])
        c.add("distinct_nontrivial", s["states_with_history"])
        c.cov["longest_chain"] = max(c.cov.get("longest_chain", 0), s["longest_chain"])
        if k == 0:
            lines = open(tp).read().splitlines()
            c.sample({"kind": "trace_prefix", "value": [json.loads(x) for x in lines[:6]]})
            # which recorded deviations does this trace actually exhibit?  (rejected once the deviation is taken out)
            for d in okdev:
                ok2, _ = validate(c, tp, wd, [x for x in okdev if x != d], "wo-" + d)
                if not ok2 and d in FINDING_OF:
                    c.cov.setdefault("deviations_exhibited", []).append(d)
            # binding self-test: corrupt one decoded value
            for i, line in enumerate(lines):
                e = json.loads(line)
                if e["ev"] == "decode" and e["out"] and e["out"][0]:
                    e["out"][0][0] = 1 if e["out"][0][0] != 1 else 2
                    lines[i] = json.dumps(e)
                    break
            bad = os.path.join(wd, "corrupted.ndjson")
            open(bad, "w").write("\n".join(lines) + "\n")
            ok3, _ = validate(c, bad, wd, okdev, "selftest")
            if ok3:
                raise ToolError("binding self-test failed: a corrupted decode was accepted")
            c.cov["binding_selftest"] = "corrupted decoded value rejected"


def run(tier, seed):
    c = Check(PROP, tier, seed, "model_checking")
    wd = vlib.workdir("c18")
    c.assumptions = ["values cross into the specification as per-column ids; the driver compares bit-exactly (NaN, -0.0, empty / 5000-byte text, NUL bytes)",
                     "snapshots are the ones a coordinator can hand out (own id above the last committed id)",
                     "the tuple code is driven through the verif::tuple facade, the same entry points the heap uses "
                     "(TupleBuilder::build, add_version_with, delete, clear_delete, vaccum_with, Row::from_bytes_checked_with_snapshot)",
                     "shipped deviations modelled exactly: " + ", ".join(AS_BUILT) + " (findings UpdateStampsCreator, OwnDeleteOfUpdatedRow; the other two are masked by the first)"]
    model_check(c, tier)
    replay_behaviours(c, tier, wd)
    if not c.violations:
        traces(c, tier, seed, wd)
    vlib.report_known(c, PROP)
    c.cov["rule"] = "non-trivial = a decode that had to return a version other than the newest (replay) / a state with stored history (traces)"
    c.cov["exhaustive"] = True
    shutil.rmtree(wd, ignore_errors=True)
    return c.finish()


def replay(path, seed):
    c = Check(PROP, "quick", seed, "model_checking")
    wd = vlib.workdir("c18-replay")
    if path.endswith(".ndjson"):
        if not any(validate(c, path, wd, dev, "replay")[0] for dev in dev_sets()):
            c.violation("trace rejected", path)
    else:
        b = json.load(open(path))
        tmp = os.path.join(wd, "b.ndjson")
        open(tmp, "w").write(json.dumps({"family": b["family"]}) + "\n" + json.dumps(b["behaviour"]) + "\n")
        out = os.path.join(wd, "o.json")
        _, so, _ = axv(["tuple", "replay", "--in", tmp, "--out", out, "--base", b["index"]])
        if last_json(so)["divergences"]:
            c.violation(json.load(open(out))["first"][0]["what"], path)
    shutil.rmtree(wd, ignore_errors=True)
    for what, p in c.violations:
        print("VIOLATION property=%s replay=%s" % (PROP, p))
    return 1 if c.violations else 0
