"""C19 - values compare, hash, cast and round-trip consistently.
(M) Values.tla states the laws over an abstract rank domain (Eq an equivalence that hashing respects, Cmp a total order
    within a class that agrees with Eq and with the mathematical value across numeric column types) and TLC checks their
    consistency on a small domain; each shipped deviation that breaks a law must be refuted there.
(T) the driver lays a grid of values of every column type on the number line (boundary integers of every width, 2^24+1,
    2^53+1, +-0.0, infinities, NaN, subnormal-scale floats; empty / prefix / long / non-ASCII text; booleans; NULL) and records
    what the engine answers for every pair (==, partial_cmp, hash equality), for every value (cast to its own type, tuple
    encode/decode), and per column type what SQL stores and what ORDER BY / DISTINCT / GROUP BY return; ValuesTrace.tla accepts
    the trace only if every answer satisfies the laws (with the recorded deviations modelled exactly)."""
import itertools, json, os, shutil
import vlib
from vlib import Check, ToolError, run_tlc, axv, last_json, write_cfg, tla_set

PROP = "C19"
AS_BUILT = ["SqlNumericLiteralViaF64"]   # NumericCompareViaF64, NegZeroHashDiffers and NaNNotReflexive were repaired (c56fbc9, b3e2c6a, 27cc169); the constants stay in Values.tla


def dev_sets():
    out = [list(AS_BUILT)]
    for k in range(len(AS_BUILT) - 1, -1, -1):
        out += [list(x) for x in itertools.combinations(AS_BUILT, k)]
    return out


def model_check(c):
    r = run_tlc("Values", os.path.join(vlib.SPEC, "MC_Values.cfg"), workers=4)
    if not r.ok:
        raise ToolError("Values.tla: the ideal laws are inconsistent (%s)" % r.violated)
    c.add("states", r.distinct)
    c.add("transitions", r.generated)
    ref = []
    for cfg in ("MC_Values_dev_nan.cfg", "MC_Values_dev_f64.cfg"):
        d = run_tlc("Values", os.path.join(vlib.SPEC, cfg), workers=2)
        if d.violated != "Laws":
            raise ToolError("%s: the deviation should break a law" % cfg)
        ref.append(cfg[len("MC_Values_dev_"):-4])
    c.cov["deviations_refuted_by_the_laws"] = ref


def validate(c, tp, wd, dev, name):
    cfg = write_cfg(os.path.join(wd, "ValuesTrace-%s.cfg" % name), "TSpec", {"Dev": tla_set(dev)}, postcondition="Accepted")
    r = run_tlc("ValuesTrace", cfg, workers=1, dfs=True, env={"TRACE": tp}, timeout=900, name="ValuesTrace-" + name)
    c.add("states", r.distinct)
    c.add("transitions", r.generated)
    return r.ok and not r.postcondition_false and not r.violated, r


def run(tier, seed):
    c = Check(PROP, tier, seed, "exploration")
    wd = vlib.workdir("c19")
    c.assumptions = ["the rank table of the driver is the oracle (values are laid out on the number line by construction; text is byte-lexicographic)",
                     "quick: the boundary grid only (VERIF_SEED does not change it); thorough: plus 120 seeded values away from the boundaries; ranks are computed by exact comparison (i128 / double decomposition) and cross-checked against the hand-ordered table",
                     "observers through SQL use the literals the parser accepts (no float32 / NaN / infinity literals); API-level relations cover those",
                     "shipped deviations modelled exactly: " + ", ".join(AS_BUILT)]
    model_check(c)
    tp = os.path.join(wd, "values.ndjson")
    extra = [] if tier == "quick" else ["--extra", 120, "--seed", seed]
    _, so, _ = axv(["values", "--out", tp, "--dir", os.path.join(wd, "values-db")] + extra, timeout=600)
    st = last_json(so)
    okdev, r0 = None, None
    for dev in dev_sets():
        ok, r = validate(c, tp, wd, dev, "main")
        r0 = r0 or r
        if ok:
            okdev = dev
            break
    if okdev is None:
        p = vlib.save_replay(PROP, "values.ndjson", tp)
        c.violation("the engine's answers break a law of Values.tla: %s" % ((r0.error_text or str(r0.violated))[:600]), p)
    else:
        c.cov["accepted_with_dev"] = okdev
        if okdev != AS_BUILT:
            c.notes.append("accepted with fewer deviations than recorded: %s" % okdev)
        known = {f["id"]: f for f in vlib.load_known()}
        for d in okdev:
            ok2, _ = validate(c, tp, wd, [x for x in okdev if x != d], "wo-" + d)
            if not ok2 and d in known and known[d]["status"] == "known":
                c.known(d, "%s [%s]" % (known[d]["what_fails"], known[d]["call_site"]))
        # binding self-test: flip one answer
        lines = open(tp).read().splitlines()
        for i, line in enumerate(lines):
            e = json.loads(line)
            if e["ev"] == "pair" and e["cmp"] == "lt":
                e["cmp"] = "gt"
                lines[i] = json.dumps(e)
                break
        bad = os.path.join(wd, "corrupted.ndjson")
        open(bad, "w").write("\n".join(lines) + "\n")
        ok3, _ = validate(c, bad, wd, okdev, "selftest")
        if ok3:
            raise ToolError("binding self-test failed: a flipped comparison was accepted")
        c.cov["binding_selftest"] = "flipped comparison rejected"
    c.add("traces_validated_against_impl", 1)
    c.add("trace_events", st["events"])
    c.cov["grid_values"] = st["values"]
    c.cov["pairs"] = st["pairs"]
    c.cov["round_trips"] = st["rounds"]
    c.cov["observer_results"] = st["observers"]
    c.cov["distinct_nontrivial"] = st["pairs"]
    c.cov["evaluations"] = st["pairs"] + st["rounds"] + st["observers"]
    c.cov["rule"] = "non-trivial = ordered pairs of grid values whose ==, partial_cmp and hash answers were checked"
    c.cov["exhaustive"] = True
    c.sample({"kind": "trace_prefix", "value": [json.loads(x) for x in open(tp).read().splitlines()[:4]]})
    shutil.rmtree(wd, ignore_errors=True)
    return c.finish()


def replay(path, seed):
    c = Check(PROP, "quick", seed, "exploration")
    wd = vlib.workdir("c19-replay")
    ok = any(validate(c, path, wd, dev, "replay")[0] for dev in dev_sets())
    shutil.rmtree(wd, ignore_errors=True)
    if not ok:
        print("VIOLATION property=%s replay=%s" % (PROP, path))
        return 1
    return 0
