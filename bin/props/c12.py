"""C12 - configuration changes performance, never results."""
import _dbprop, dbcheck
PROP = "C12"
def run(tier, seed):
    return _dbprop.run(PROP, tier, seed, [('cfg', 16, 160)],
        ['the specification has no configuration variable: the same statement sequence (workload seed) is validated with the same admissible results under every configuration of the grid (page size, cache size, pool size, min keys, siblings), with and without checkpoints', '4/8 KiB pages only with a one-table catalog (finding MetaTableSplitCorruptsCatalog)'],
        '8 configurations per workload; configs = (workload, configuration) runs validated', mc=None, nontrivial_key='configs')
def replay(path, seed):
    return dbcheck.replay_trace(PROP, path, seed)
