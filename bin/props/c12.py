"""C12 - configuration changes performance, never results.
(M) Cache.tla: bounded frame set, pins, clock eviction of free frames with write-back, checkpoint; every page reads as the
    last value written whatever the capacity and the interleaving (Coherent), the cache never exceeds its capacity; writing
    a victim to another page's place (the seeded change C12-m1) and dropping a dirty victim must be refuted.
(T) the same statement sequence under a grid of configurations (page size 4-64 KiB, cache 6-10000 pages, pool 1-8, min keys
    3-8, siblings 1-3), with and without checkpoints; every trace is validated against Db.tla, which has no configuration
    variable: identical admissible results for every configuration.
(long run) axv soak: a table of ~47 pages scanned 2400 / 12000 times under a cache of 12-24 pages (more than 65536
    evictions): the answer never changes, no scan fails."""
import os
import _dbprop, dbcheck, vlib
from vlib import ToolError, run_tlc
PROP = "C12"


def _cache(c, tier):
    r = run_tlc("Cache", os.path.join(vlib.SPEC, "MC_Cache.cfg"), workers=4)
    if not r.ok:
        raise ToolError("Cache.tla violates %s" % r.violated)
    c.add("states", r.distinct)
    c.add("transitions", r.generated)
    for cfg in ("MC_Cache_dev_offset.cfg", "MC_Cache_dev_drop.cfg"):
        d = run_tlc("Cache", os.path.join(vlib.SPEC, cfg), workers=2)
        if d.violated != "Coherent":
            raise ToolError("%s should violate Coherent" % cfg)
    c.cov["design_mutations_refuted"] = ["EvictWritesElsewhere", "EvictDropsDirty"]


def run(tier, seed):
    return _dbprop.run(PROP, tier, seed, [('cfg', 16, 160)],
        ['the specification of the store has no configuration variable: the same statement sequence (workload seed) is validated with the same admissible results under every configuration of the grid (page size, cache size, pool size, min keys, siblings), with and without checkpoints',
         'with caches below 32 pages multi-row UPDATE / DELETE are left out (finding SmallCacheFailsStatements: the statement fails when every frame is pinned - Cache.tla models that as a clean failure)'],
        '8 configurations per workload; configs = (workload, configuration) runs validated', mc=None, nontrivial_key='configs', pre=_cache, post=lambda c, wd, tier, seed: dbcheck.soak_leg(c, wd, tier, seed, PROP))


def replay(path, seed):
    return dbcheck.replay_trace(PROP, path, seed)
