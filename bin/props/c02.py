"""C02 - a crash leaves no trace of unfinished or rolled-back transactions."""
import _dbprop, dbcheck
PROP = "C02"
def run(tier, seed):
    return _dbprop.run(PROP, tier, seed, [('crash', 24, 160), ('alter', 6, 60)],
        ['same images as C01; the crash read must equal the committed state exactly - with or without the one transaction whose commit was in flight, as a whole', 'recorded findings: CheckpointNotAtomic, CheckpointLeaksOpenTransaction'],
        'histories keep sessions open across the crash point, roll some back and drop some; non-trivial = an acknowledged commit precedes the crash point (losers are present in most histories)', mc=None, level='fault_enumeration', pre=dbcheck.model_check_recovery, nontrivial_key='nontrivial', extra={"crash": ["--points", "90" if tier == "quick" else "100000"]})
def replay(path, seed):
    return dbcheck.replay_trace(PROP, path, seed)
