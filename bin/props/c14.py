"""C14 - statements issued from several threads all finish and stay correct.
(M) Latch.tla: the locking protocol behind concurrent statements (one global pager lock per page access, page latches held
    until the traversal is done, pages latched top-down, the pager lock never held while waiting for a latch); TLC checks
    mutual exclusion and that every statement finishes under all interleavings, and that holding the pager lock across the
    latch wait deadlocks.  Txn.tla (interleaved transactions) is model-checked by C03/C04.
(T) several real client threads (2-4 writers, each on its own table through autocommit calls and sessions with commit /
    rollback; 1-3 readers on tables nobody writes; worker pools of 2-8) run seeded statement lists with yields and small
    sleeps; every call's result is recorded with a global completion number, and the merged history - which is a legal
    serial order because no two clients touch the same rows - must be a behaviour of Db.tla (DbTrace.tla): every result
    exactly what the client's own history determines, final contents exactly the acknowledged statements, no internal
    error.  A client that does not return within the watchdog limit is a violation."""
import json, os, shutil
import vlib, dbcheck
from vlib import Check, ToolError, run_tlc, axv, last_json

PROP = "C14"


def model_check(c, tier):
    r = run_tlc("Latch", os.path.join(vlib.SPEC, "MC_Latch.cfg" if tier == "quick" else "MC_Latch_thorough.cfg"), workers=4, timeout=3000)
    if not r.ok:
        raise ToolError("Latch.tla fails: %s" % (r.violated or "deadlock" if r.deadlock else r.violated))
    c.add("states", r.distinct)
    c.add("transitions", r.generated)
    d = run_tlc("Latch", os.path.join(vlib.SPEC, "MC_Latch_dev.cfg"), workers=2)
    if not d.deadlock:
        raise ToolError("PagerHeldAcrossLatch should deadlock")
    d2 = run_tlc("Latch", os.path.join(vlib.SPEC, "MC_Latch_dev_recread.cfg"), workers=2)
    if not d2.deadlock:
        raise ToolError("RecursiveReadQueuesBehindWriter should deadlock")
    c.cov["design_mutations_refuted"] = ["PagerHeldAcrossLatch (deadlock found)", "RecursiveReadQueuesBehindWriter (deadlock found; the code before fix 0f47055)"]
    model_check_pool(c, tier)


def model_check_pool(c, tier=None):
    """Pool.tla: FIFO job queue, workers, callers blocking on their channel, jobs that may panic; under fairness every call ends and
    no worker is lost; a worker that dies on a panic (the repaired defect b131e39) must violate EveryCallEnds."""
    r = run_tlc("Pool", os.path.join(vlib.SPEC, "MC_Pool.cfg"), workers=4)
    if not r.ok:
        raise ToolError("Pool.tla fails: %s" % r.violated)
    c.add("states", r.distinct)
    c.add("transitions", r.generated)
    d = run_tlc("Pool", os.path.join(vlib.SPEC, "MC_Pool_dev.cfg"), workers=2)
    if not d.violated:
        raise ToolError("WorkerDiesOnPanic should violate EveryCallEnds")
    c.cov.setdefault("design_mutations_refuted", []).append("WorkerDiesOnPanic (EveryCallEnds violated)")


def conc_leg(c, wd, tier, seed, prop=PROP, n=None):
    """real client threads; the merged history must be a behaviour of Db.tla and every client must return"""
    n = n or (4 if tier == "quick" else 40)
    rounds = 4 if tier == "quick" else 8
    for k in range(n):
        if c.violations:
            break
        s = seed * 1000 + k
        tp = os.path.join(wd, "conc-%d.ndjson" % s)
        try:
            # the first run of a leg is a long one (250 calls per client): the tables and the catalog grow deep enough for latch
            # hand-over between the levels of a tree to matter; the others are many short ones
            long_run = k == 0
            rc, so, _ = axv(["conc", "--seed", s, "--rounds", 2 if long_run else rounds, "--steps", 250 if long_run else (40 if tier == "quick" else 80), "--shared-read", "--out", tp, "--dir", os.path.join(wd, "conc-db")], timeout=900, check=False)
        except ToolError:
            rc, so = "timeout", ""
        if rc != 0:
            p = vlib.save_replay(prop, "conc-%d.ndjson" % s, tp) if os.path.exists(tp) else tp
            c.violation("the database did not survive the concurrent clients (driver %s)" % rc, p)
            break
        st = last_json(so)
        c.add("traces_validated_against_impl", st["segments"])
        c.add("trace_events", st["events"])
        c.add("client_calls", st["calls"])
        c.add("client_threads", st["clients"])
        c.add("sessions", st["sessions"])
        c.add("distinct_statements", st.get("distinct_statements", 0))
        c.add("perturbed_rounds", st.get("perturbed_rounds", 0))
        c.add("injected_yields", st.get("injected_yields", 0))
        if st.get("hung"):
            p = vlib.save_replay(prop, "conc-%d-hang.ndjson" % s, tp)
            c.violation("a client thread did not return within the watchdog limit (deadlock or lost worker)", p)
            break
        ok, r, devs = dbcheck.validate(c, wd, tp, "conc%d" % s)
        if not ok:
            p = vlib.save_replay(prop, "conc-%d.ndjson" % s, tp)
            c.violation("the merged history of the concurrent clients is not a behaviour of Db.tla; first unmatched event: %s" % ((r.error_text or str(r.violated))[:600]), p)
        if k == 0 and not c.violations:
            lines = open(tp).read().splitlines()
            c.sample({"kind": "trace_sample", "value": [json.loads(x) for x in lines[len(lines) // 2: len(lines) // 2 + 5]]})


def run(tier, seed):
    c = Check(PROP, tier, seed, "exploration")
    wd = vlib.workdir("c14")
    c.assumptions = ["schedules are sampled (seeded statement lists, OS scheduling, yields and sleeps injected between calls and - every other round, through the yield-point hook - before and after every page latch inside the engine), not enumerated: the level is exploration",
                     "clients never write the same rows (own table per writer; readers read the read-only tables with checked results and scan the writers' tables with unchecked results), so the merge of all calls by completion number is a "
                     "legal serial order and every result is determined by the client's own history; concurrent writers on one table are not exercised "
                     "(finding NoWriteSetValidation: conflicting writers are not detected)",
                     "no VACUUM / checkpoint while clients run (VACUUM aborts every active transaction by design; checkpoint with open transactions is a recorded finding)",
                     "a session never deletes rows of a table that is updated (finding OwnDeleteOfUpdatedRow)"]
    model_check(c, tier)
    conc_leg(c, wd, tier, seed)
    vlib.report_known(c, PROP)
    c.cov["rule"] = "evaluations = calls made by client threads while other client threads were running; non-trivial = distinct statement texts among them (per run)"
    c.cov["distinct_nontrivial"] = c.cov.get("distinct_statements", 0)
    c.cov["evaluations"] = c.cov.get("client_calls", 0)
    shutil.rmtree(wd, ignore_errors=True)
    return c.finish()


def replay(path, seed):
    return dbcheck.replay_trace(PROP, path, seed)
