"""C08 - the database always reopens after a crash, and recovery can be repeated."""
import _dbprop, dbcheck
PROP = "C08"
def run(tier, seed):
    return _dbprop.run(PROP, tier, seed, [('crash', 24, 160), ('alter', 6, 60)],
        ['every image must open; the recovered database is closed and opened again (contents must be identical), then a probe table is created, written and read', 'recorded finding CheckpointNotAtomic: crash points inside a checkpoint (also the one that ends recovery) are not constrained'],
        'image = files after the k-th write; each is opened twice by a child process and audited page by page; depth 2: the writes of that recovery are recorded and the files as they were after its j-th write (quick: 8 spread points per image, thorough: every write) are opened by a third process, which must open, be sound and read the same contents; non-trivial as in C01', mc=None, level='fault_enumeration', pre=dbcheck.model_check_recovery, nontrivial_key='nontrivial', extra={"crash": ["--points", "90" if tier == "quick" else "100000", "--nested", "8" if tier == "quick" else "100000"]})
def replay(path, seed):
    return dbcheck.replay_trace(PROP, path, seed)
