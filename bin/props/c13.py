"""C13 - VACUUM frees space without changing what anyone can see."""
import _dbprop, dbcheck
PROP = "C13"
def run(tier, seed):
    return _dbprop.run(PROP, tier, seed, [('vac', 20, 300), ('uniq', 6, 80)],
        ['VACUUM in the specification only drops what no transaction can see; reads before and after it must be admissible for the same state; the file size after update/vacuum cycles must stop growing from the third cycle on', 'VACUUM is issued while no session is open (it aborts open transactions)'],
        'histories of committed / rolled-back inserts, deletes, updates followed by VACUUM at random points, repeatedly, with reopen in between; vacuums counted', mc=None, nontrivial_key='vacuums')
def replay(path, seed):
    return dbcheck.replay_trace(PROP, path, seed)
