"""C03 - ROLLBACK, a failed statement or a failed batch leaves no effects."""
import _dbprop, dbcheck
PROP = "C03"
def run(tier, seed):
    return _dbprop.run(PROP, tier, seed, [("txn", 14, 300), ("atom", 10, 200), ("reopen", 6, 60), ("uniq", 6, 100)],
        ["exact deviation UpdateStampsCreator (an UPDATE survives ROLLBACK; pinned by tests/mod.rs:110-126) is part of the as-built specification",
         "open transactions write disjoint rows (partitioned ids): overlapping writers are the recorded finding NoWriteSetValidation",
         "in sessions only single-row statements are made to fail (finding SessionStatementNotAtomic)",
         "kind uniq: what a rolled-back INSERT or DELETE leaves in a unique index must not change which keys are accepted afterwards"],
        "segments interleave up to 3 sessions with autocommit calls; every rollback / session drop / failing statement is followed by reads from other transactions; distinct_nontrivial = statements validated",
        mc=("MC_Txn.cfg", "MC_Txn_thorough.cfg"))
def replay(path, seed):
    return dbcheck.replay_trace(PROP, path, seed)
