"""C17 - the write-ahead log returns exactly what was appended.
(M) MC_Wal: exhaustive TLC check of Wal.tla (block-level design) + the two shipped deviations must be refuted.
(R) WalReplay: TLC enumerates every operation sequence of length N over real byte sizes; each is replayed through
    the real WriteAheadLog (facade) and every read-back is compared with the specification's.
(T) WalTrace: seeded random workloads recorded from the real log, validated by TLC against Wal.tla."""
import json, os, shutil
import vlib
from vlib import Check, ToolError, run_tlc, axv, last_json, write_cfg, tla_set

PROP = "C17"


def model_check(c, tier):
    r = run_tlc("MC_Wal", os.path.join(vlib.SPEC, "MC_Wal.cfg" if tier == "quick" else "MC_Wal_thorough.cfg"),
                workers=4 if tier == "quick" else 8, coverage=True, timeout=1800)
    if not r.ok:
        raise ToolError("Wal.tla (ideal design) violates %s - specification error" % r.violated)
    c.add("states", r.distinct)
    c.add("transitions", r.generated)
    c.cov["mc_depth"] = r.depth
    c.cov["mc_zero_coverage_actions"] = r.zero_coverage
    # the shipped deviations must be refuted by the same invariants (the invariants bite; witnesses of the fixed findings)
    for cfg, inv in (("MC_Wal_dev_force.cfg", "ReadBackExact"), ("MC_Wal_dev_lsn.cfg", "LsnIncreasing")):
        d = run_tlc("MC_Wal", os.path.join(vlib.SPEC, cfg), workers=2)
        if d.violated != inv:
            raise ToolError("%s: expected a counterexample for %s" % (cfg, inv))
    c.cov["design_mutations_refuted"] = ["ForceRewritesFromBlock1", "LsnFromBlockZero"]


def replay_behaviours(c, tier, caps, wd):
    h, cap0, cap = caps["hdr"], caps["cap0"], caps["cap"]
    cap0a, capa = cap0 // 8 * 8, cap // 8 * 8
    sizes = sorted({h, cap0a, capa, (capa // 2 + 8) // 8 * 8, (capa // 4) // 8 * 8})
    maxops = 4 if tier == "quick" else 5
    cfg = write_cfg(os.path.join(wd, "WalReplay.cfg"), "RSpec",
                    {"Cap0": cap0, "Cap": cap, "Dev": "{}", "Sizes": tla_set(sizes), "MaxOps": maxops},
                    invariants=["Emit", "Props"])
    r = run_tlc("WalReplay", cfg, workers=1, timeout=3000, xmx="8g")
    if not r.ok:
        raise ToolError("WalReplay: specification violates its own properties (%s)" % r.violated)
    beh = [p for t, p in r.printed if t == "REPLAY"]
    if not beh:
        raise ToolError("WalReplay produced no behaviours")
    path = os.path.join(wd, "behaviours.ndjson")
    with open(path, "w") as f:
        for b in beh:
            f.write(b + "\n")
    out = os.path.join(wd, "replay-result.json")
    _, so, _ = axv(["wal", "replay", "--in", path, "--dir", os.path.join(wd, "rp"), "--out", out, "--threads", 12], timeout=3000)
    s = last_json(so)
    res = json.load(open(out))
    c.add("behaviours_replayed", s["behaviours"])
    c.add("replay_ops", s["ops"])
    c.add("replay_reads_compared", s["reads"])
    c.cov["replay_alphabet"] = {"sizes": sizes, "length": maxops, "exhaustive": True}
    c.add("states", r.distinct)
    c.add("transitions", r.generated)
    c.sample({"kind": "behaviour", "value": json.loads(beh[len(beh) // 2])})
    if s["divergences"]:
        first = res["first"][0]
        p = vlib.save_replay(PROP, "behaviour.json", json.dumps(first, indent=1))
        c.violation("replayed behaviour diverges: " + first["what"], p)
    return s["behaviours"]


def validate_trace(c, trace_path, name="trace"):
    r = run_tlc("WalTrace", os.path.join(vlib.SPEC, "WalTrace.cfg"), workers=1, dfs=True, env={"TRACE": trace_path},
                timeout=1800, name="WalTrace-" + name)
    n = sum(1 for _ in open(trace_path))
    c.add("states", r.distinct)
    c.add("transitions", r.generated)
    accepted = r.ok and not r.postcondition_false and not r.violated
    return accepted, r, n


def trace_validation(c, tier, seed, wd):
    segs = 80 if tier == "quick" else 1200
    per = 400 if tier == "thorough" else 80
    total = 0
    k = 0
    while total < segs:
        n = min(per, segs - total)
        tp = os.path.join(wd, "wal-trace-%d.ndjson" % k)
        _, so, _ = axv(["wal", "trace", "--seed", seed * 1000 + k, "--segments", n, "--ops", 70, "--out", tp,
                        "--dir", os.path.join(wd, "tr")], timeout=1800)
        st = last_json(so)
        ok, r, nev = validate_trace(c, tp, str(k))
        c.add("traces_validated_against_impl", n)
        c.add("trace_events", nev)
        c.add("trace_reads_bound", st["reads"])
        c.add("distinct_nontrivial", st["multi_block_segments"])
        if k == 0:
            with open(tp) as f:
                lines = [json.loads(x) for x in f.readlines()[:12]]
            for e in lines:
                if "recs" in e and len(e["recs"]) > 3:
                    e["recs"] = e["recs"][:3] + ["..."]
            c.sample({"kind": "trace_prefix", "value": lines})
        if not ok:
            p = vlib.save_replay(PROP, "trace-%d.ndjson" % k, tp)
            c.violation("recorded trace is not a behaviour of Wal.tla: first unmatched event %s" % (r.error_text or r.violated), p)
            break
        if k == 0:
            binding_selftest(c, tp, wd)
        total += n
        k += 1


def binding_selftest(c, tp, wd):
    """Corrupt one observation of an accepted trace: TLC must reject it, otherwise the binding is broken."""
    lines = open(tp).read().splitlines()
    for i, line in enumerate(lines):
        e = json.loads(line)
        if e.get("ev") == "read" and e.get("ok") and len(e["recs"]) >= 2:
            e["recs"][1]["tag"] = (e["recs"][1]["tag"] + 1) % 2147483647
            lines[i] = json.dumps(e)
            break
    else:
        return
    bad = os.path.join(wd, "corrupted.ndjson")
    open(bad, "w").write("\n".join(lines) + "\n")
    r = run_tlc("WalTrace", os.path.join(vlib.SPEC, "WalTrace.cfg"), workers=1, dfs=True, env={"TRACE": bad},
                name="WalTrace-selftest")
    if r.ok and not r.postcondition_false:
        raise ToolError("binding self-test failed: a corrupted read-back was accepted")
    c.cov["binding_selftest"] = "corrupted read-back rejected at event %d" % r.depth


def run(tier, seed):
    c = Check(PROP, tier, seed, "model_checking")
    wd = vlib.workdir("c17")
    c.assumptions = ["writes are durable and ordered when issued (O_DIRECT + sync_all as the engine uses them)",
                     "payload identity is compared through a 31-bit FNV digest in TLC and byte-for-byte in the replay driver",
                     "block placement is not bound (the property is silent about it); records larger than an empty data block may be refused"]
    model_check(c, tier)
    _, so, _ = axv(["wal", "caps", "--dir", os.path.join(wd, "caps")])
    caps = last_json(so)
    c.cov["caps"] = caps
    replay_behaviours(c, tier, caps, wd)
    if not c.violations:
        trace_validation(c, tier, seed, wd)
    c.cov["rule"] = ("non-trivial trace segment = the log left block zero (appended bytes exceed block zero + one data block) "
                     "between truncations; behaviours = every operation sequence of the stated length over the stated sizes")
    c.cov.setdefault("traces_validated_against_impl", 0)
    c.cov["traces_validated_against_impl"] += c.cov.get("behaviours_replayed", 0)
    c.cov["exhaustive"] = True
    shutil.rmtree(wd, ignore_errors=True)
    return c.finish()


def replay(path, seed):
    c = Check(PROP, "quick", seed, "model_checking")
    wd = vlib.workdir("c17-replay")
    if path.endswith(".ndjson"):
        ok, r, n = validate_trace(c, path, "replay")
        if not ok:
            c.violation("trace rejected: " + (r.error_text or str(r.violated)), path)
    else:
        b = json.load(open(path))
        tmp = os.path.join(wd, "b.ndjson")
        open(tmp, "w").write(json.dumps(b["behaviour"]) + "\n")
        out = os.path.join(wd, "o.json")
        _, so, _ = axv(["wal", "replay", "--in", tmp, "--dir", os.path.join(wd, "rp"), "--out", out, "--threads", 1])
        if last_json(so)["divergences"]:
            c.violation(json.load(open(out))["first"][0]["what"], path)
    shutil.rmtree(wd, ignore_errors=True)
    for what, p in c.violations:
        print("VIOLATION property=%s replay=%s" % (PROP, p))
    return 1 if c.violations else 0
