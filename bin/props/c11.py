"""C11 - every page has exactly one owner; freed pages are reused, never lost.
(M) Pager.tla: file size, free list (FIFO: released pages go to the tail, allocations take the head), ownership of every
    handed-out page; TLC checks Partition (every page but page zero is on the free list or owned by exactly one tree),
    ReuseBeforeGrow and NeverLost exhaustively for small files.
(T) every allocate_page / dealloc_page of the real pager is recorded through the hook (feature verif) while seeded
    histories run (DDL, small and overflowing rows, rollbacks, failing statements, VACUUM, DROP, CREATE UNIQUE INDEX,
    reopen, every page size), and at every quiescent point the whole file is audited (page zero, free-list walk, every
    tree of the catalog with its nodes and overflow chains).  PagerTrace.tla accepts the trace only if every pager call
    is the specification's action and every audit shows exactly the specification's state."""
import json, os, shutil
import vlib
from vlib import Check, ToolError, run_tlc, axv, last_json

PROP = "C11"
KIND = "pages"


def model_check(c, tier):
    cfg = os.path.join(vlib.SPEC, "MC_Pager.cfg" if tier == "quick" else "MC_Pager_thorough.cfg")
    r = run_tlc("Pager", cfg, workers=4 if tier == "quick" else 8, timeout=3000)
    if not r.ok:
        raise ToolError("Pager.tla violates %s" % r.violated)
    c.add("states", r.distinct)
    c.add("transitions", r.generated)
    d = run_tlc("Pager", os.path.join(vlib.SPEC, "MC_Pager_dev_lifo.cfg"), workers=2)
    if d.violated is None:
        raise ToolError("design mutation (released page not linked to the tail) was not refuted")
    c.cov["design_mutations_refuted"] = ["DeallocForgetsTail"]


def validate(c, tp, name):
    r = run_tlc("PagerTrace", os.path.join(vlib.SPEC, "PagerTrace.cfg"), workers=1, dfs=True, env={"TRACE": tp}, timeout=1800, name="PagerTrace-" + name)
    c.add("states", r.distinct)
    c.add("transitions", r.generated)
    return r.ok and not r.postcondition_false and not r.violated, r


def run_seed(c, wd, seed, segments, prop=PROP):
    """one seeded history through the real engine + TLC validation; returns the driver's statistics"""
    tp = os.path.join(wd, "pages-%d.ndjson" % seed)
    _, so, _ = axv(["pages", "--seed", seed, "--segments", segments, "--out", tp, "--dir", os.path.join(wd, "pages-db-%d" % seed)], timeout=1800)
    st = last_json(so)
    ok, r = validate(c, tp, str(seed))
    c.add("traces_validated_against_impl", st["segments"])
    c.add("trace_events", st["events"])
    c.add("statements", st["stmts"])
    for k in ("audits", "allocs_reused", "allocs_grown", "deallocs", "overflow_chain_pages_seen", "skipped_for_alias_finding"):
        c.add(k, st[k])
    c.cov["max_total_pages"] = max(c.cov.get("max_total_pages", 0), st["max_total_pages"])
    if st.get("hung") or st.get("panics"):
        p = vlib.save_replay(prop, "pages-%d.ndjson" % seed, tp)
        c.violation("a call %s (kind pages)" % ("did not return" if st.get("hung") else "panicked: %s" % st["panics"][:2]), p)
    elif not ok:
        p = vlib.save_replay(prop, "pages-%d.ndjson" % seed, tp)
        c.violation("trace (kind pages) is not a behaviour of Pager.tla; first unmatched event: %s" % ((r.error_text or str(r.violated))[:700]), p)
    return st, tp


def selftest(c, tp, wd):
    """binding self-test: drop one dealloc event / corrupt one audit; TLC must reject both"""
    lines = open(tp).read().splitlines()
    for what in ("drop-dealloc", "audit-leak"):
        out = list(lines)
        for i, line in enumerate(out):
            e = json.loads(line)
            if what == "drop-dealloc" and e["ev"] == "dealloc":
                del out[i]
                break
            if what == "audit-leak" and e["ev"] == "audit" and len(e["owned"]) > 2 and e["owned"][2]:
                e["owned"][2] = e["owned"][2][1:]
                out[i] = json.dumps(e)
                break
        else:
            continue
        bad = os.path.join(wd, "selftest-%s.ndjson" % what)
        open(bad, "w").write("\n".join(out) + "\n")
        ok, _ = validate(c, bad, "selftest-" + what)
        if ok:
            raise ToolError("binding self-test failed: %s was accepted" % what)
        c.cov.setdefault("binding_selftest", []).append(what + " rejected")


def run(tier, seed):
    from _dbprop import load_pool
    c = Check(PROP, tier, seed, "model_checking")
    wd = vlib.workdir("c11")
    c.assumptions = ["audits are taken at quiescent points (no statement running, no session open)",
                     "pages of relations whose catalog row is dead (creator aborted / dropped) are not walked: they belong to whoever got them since",
                     "two of the three tables hold rows that continue in overflow chains; they are updated, deleted and vacuumed like the others "
                     "(before the separator fix 3a55300 such rows could not be rewritten without freeing a chain a separator still referenced)",
                     "workloads are drawn from the vetted seed pool pools/pages.json (DESIGN.md, seed pools)"]
    model_check(c, tier)
    pool = load_pool(KIND)
    n = 8 if tier == "quick" else 58
    first = None
    for k in range(n):
        if c.violations:
            break
        s = pool[(seed * 7919 + k * 104729) % len(pool)] if pool else seed * 1000 + k
        st, tp = run_seed(c, wd, s, 4 if tier == "quick" else 8)
        if first is None and not c.violations:
            first = tp
            lines = open(tp).read().splitlines()
            c.sample({"kind": "trace_prefix", "value": [json.loads(x) for x in lines[:8]]})
            selftest(c, tp, wd)
    c.cov["seed_pool"] = {KIND: {"vetted_seeds": len(pool), "batches": n}}
    vlib.report_known(c, PROP)
    c.cov["rule"] = "non-trivial = audits taken after at least one release (deallocs > 0) with pages reused from the free list"
    c.cov["distinct_nontrivial"] = c.cov.get("allocs_reused", 0)
    c.cov["exhaustive"] = True
    shutil.rmtree(wd, ignore_errors=True)
    return c.finish()


def replay(path, seed):
    c = Check(PROP, "quick", seed, "model_checking")
    ok, r = validate(c, path, "replay")
    if not ok:
        print("VIOLATION property=%s replay=%s" % (PROP, path))
        return 1
    return 0
