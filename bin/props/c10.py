"""C10 - each B+tree is a correct ordered map with sound structure.
(M) BTree.tla: the map semantics of insert / update / upsert / remove, the structural predicate WellFormed (ordered within and
    across pages, separators route the code's search rule, leaves at one depth, sibling links in key order, no page twice) and a
    model tree (root over leaves, split on overflow, unlink on emptiness); TLC checks that every reachable model tree is
    WellFormed, holds exactly the map and that the code's routing rule finds exactly its keys; a wrong-separator design
    mutation must be refuted.
(T) seeded operation sequences on one raw tree of the real code (verif::tree facade: the same insert / update / upsert /
    remove_tuple / search_tuple / iter_forward the heap and the indexes use) over every key type (unsigned, signed, text,
    composite), page size, minimum keys and siblings-per-side; every outcome, lookups, scans and page-graph dumps are
    validated by BTreeTrace.tla against the map and against WellFormed / Holds / Finds."""
import json, os, shutil
import vlib
from vlib import Check, ToolError, run_tlc, axv, last_json

PROP = "C10"
KIND = "tree"


def model_check(c, tier):
    r = run_tlc("BTree", os.path.join(vlib.SPEC, "MC_BTree.cfg" if tier == "quick" else "MC_BTree_thorough.cfg"), workers=8, timeout=3000)
    if not r.ok:
        raise ToolError("BTree.tla violates %s" % r.violated)
    c.add("states", r.distinct)
    c.add("transitions", r.generated)
    d = run_tlc("BTree", os.path.join(vlib.SPEC, "MC_BTree_dev_sep.cfg"), workers=4)
    if d.violated != "Sound":
        raise ToolError("design mutation SeparatorIsLastOfLeft was not refuted")
    c.cov["design_mutations_refuted"] = ["SeparatorIsLastOfLeft"]


def validate(c, tp, name):
    r = run_tlc("BTreeTrace", os.path.join(vlib.SPEC, "BTreeTrace.cfg"), workers=1, dfs=True, env={"TRACE": tp}, timeout=1800, name="BTreeTrace-" + name)
    c.add("states", r.distinct)
    c.add("transitions", r.generated)
    return r.ok and not r.postcondition_false and not r.violated, r


def run_seed(c, wd, seed, segments, prop=PROP):
    tp = os.path.join(wd, "tree-%d.ndjson" % seed)
    try:
        rc, so, _ = axv(["tree", "--seed", seed, "--segments", segments, "--out", tp, "--dir", os.path.join(wd, "tree-db-%d" % seed)], timeout=600, check=False, mem_limit=6 << 30)
    except ToolError:
        rc, so = "timeout", ""
    if rc != 0:
        # the code under test looped, exhausted memory or aborted the process: that is an outcome, not a tool error
        p = vlib.save_replay(prop, "tree-%d.ndjson" % seed, tp) if os.path.exists(tp) else tp
        c.violation("the tree code did not survive the workload (driver %s); last recorded events are in the replay file" % ("timed out" if rc == "timeout" else "exit %s" % rc), p)
        return {"segments": 0, "events": 0, "ops": 0, "graphs": 0, "emptied": 0, "max_nodes": 0, "max_height": 0}, tp
    st = last_json(so)
    ok, r = validate(c, tp, str(seed))
    c.add("traces_validated_against_impl", st["segments"])
    c.add("trace_events", st["events"])
    c.add("operations", st["ops"])
    c.add("graphs_checked", st["graphs"])
    c.add("emptied_and_refilled", st["emptied"])
    c.cov["max_nodes"] = max(c.cov.get("max_nodes", 0), st["max_nodes"])
    c.cov["max_height"] = max(c.cov.get("max_height", 0), st["max_height"])
    if not ok:
        p = vlib.save_replay(prop, "tree-%d.ndjson" % seed, tp)
        c.violation("trace (kind tree) is not a behaviour of BTree.tla; first unmatched event: %s" % ((r.error_text or str(r.violated))[:700]), p)
    return st, tp


def selftest(c, tp, wd):
    lines = open(tp).read().splitlines()
    for what in ("graph-key-order", "sibling-link", "outcome"):
        out = list(lines)
        for i, line in enumerate(out):
            e = json.loads(line)
            if what == "graph-key-order" and e["ev"] == "graph":
                leaf = [n for n in e["nodes"] if n["leaf"] and len(n["keys"]) >= 2]
                if leaf:
                    leaf[0]["keys"][0], leaf[0]["keys"][1] = leaf[0]["keys"][1], leaf[0]["keys"][0]
                    out[i] = json.dumps(e)
                    break
            if what == "sibling-link" and e["ev"] == "graph" and sum(1 for n in e["nodes"] if n["leaf"]) >= 3:
                n = [n for n in e["nodes"] if n["leaf"] and n["next"]][0]
                n["next"] = 0
                out[i] = json.dumps(e)
                break
            if what == "outcome" and e["ev"] == "insert" and e["out"] == "ok":
                e["out"] = "exists"
                out[i] = json.dumps(e)
                break
        else:
            continue
        bad = os.path.join(wd, "selftest-%s.ndjson" % what)
        open(bad, "w").write("\n".join(out) + "\n")
        ok, _ = validate(c, bad, "selftest-" + what)
        if ok:
            raise ToolError("binding self-test failed: %s was accepted" % what)
        c.cov.setdefault("binding_selftest", []).append(what + " rejected")


def run(tier, seed):
    from _dbprop import load_pool
    c = Check(PROP, tier, seed, "model_checking")
    wd = vlib.workdir("c10")
    c.assumptions = ["keys cross into the specification as ranks in the driver's own typed order (numeric, byte-lexicographic, lexicographic for composites); "
                     "64-bit keys include neighbours above 2^53 and at the top of the range (they collided before the comparison fix c56fbc9)",
                     "payload identity by id; payload bytes are compared by the driver",
                     "a quarter of the segments use rows that continue in overflow chains (up to three pages per row) through the full operation mix, "
                     "including delete-everything-then-reinsert (possible since the separator fix 3a55300)",
                     "iteration is forward only (the engine never iterates backwards)",
                     "workloads are drawn from the vetted seed pool pools/tree.json"]
    model_check(c, tier)
    pool = load_pool(KIND)
    n = 4 if tier == "quick" else 50
    for k in range(n):
        if c.violations:
            break
        s = pool[(seed * 7919 + k * 104729) % len(pool)] if pool else seed * 1000 + k
        st, tp = run_seed(c, wd, s, 6 if tier == "quick" else 10)
        if k == 0 and not c.violations:
            lines = open(tp).read().splitlines()
            c.sample({"kind": "trace_prefix", "value": [json.loads(x) for x in lines[:6]]})
            selftest(c, tp, wd)
    c.cov["seed_pool"] = {KIND: {"vetted_seeds": len(pool), "batches": n}}
    vlib.report_known(c, PROP)
    c.cov["rule"] = "non-trivial = page-graph dumps of trees with interior pages checked against WellFormed / Holds / Finds"
    c.cov["distinct_nontrivial"] = c.cov.get("graphs_checked", 0)
    c.cov["exhaustive"] = True
    shutil.rmtree(wd, ignore_errors=True)
    return c.finish()


def replay(path, seed):
    c = Check(PROP, "quick", seed, "model_checking")
    ok, r = validate(c, path, "replay")
    if not ok:
        print("VIOLATION property=%s replay=%s" % (PROP, path))
        return 1
    return 0
