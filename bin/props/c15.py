"""C15 - schema changes are transactional and the catalog stays coherent."""
import _dbprop, dbcheck
PROP = "C15"
def run(tier, seed):
    return _dbprop.run(PROP, tier, seed, [('ddl', 20, 300), ('alter', 6, 60)],
        ['tables are MVCC objects of Db.tla (creator / dropper transaction), so DDL is atomic with its transaction by construction of the specification; name resolution = visibility of the object', 'DROP inside a transaction that rolls back, ALTER and rejected CREATE UNIQUE INDEX are recorded findings (witnesses only)'],
        'CREATE / DROP / name reuse / DML on the same and other tables inside autocommit, committed and rolled-back transactions, reopen every few steps; statements counted', mc=None, nontrivial_key='statements')
def replay(path, seed):
    return dbcheck.replay_trace(PROP, path, seed)
