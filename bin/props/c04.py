"""C04 - transactions read a consistent snapshot."""
import _dbprop, dbcheck
PROP = "C04"
def run(tier, seed):
    return _dbprop.run(PROP, tier, seed, [("txn", 24, 400), ("snap", 10, 150)],
        ["snap[t] = set of transactions committed when t began (abstraction of xmax / active set / aborted set); sessions are opened only after the first commit (finding FirstSnapshotUnbounded)",
         "exact deviations UpdateStampsCreator and NoWriteSetValidation are part of the as-built specification; writers of open transactions are kept on disjoint rows"],
        "every SELECT inside a session is compared with the snapshot view of the specification (rows committed before its begin + own writes); distinct_nontrivial = statements validated",
        mc=("MC_Txn.cfg", "MC_Txn_thorough.cfg"))
def replay(path, seed):
    return dbcheck.replay_trace(PROP, path, seed)
