"""C20 - the wire protocol carries every message intact and rejects garbage.
(M) MC_Wire: Wire.tla gives the encoders and both decoders as total functions over byte sequences; TLC checks, for every
    message of the small family and every truncation / single-byte substitution of its encoding, RoundTrip, Total
    (an accepted input re-encodes to a prefix of itself) and FrameAllocBounded.
(R) every enumerated byte string is fed to the real Request::from_bytes / Response::from_bytes / read_message under
    catch_unwind, and the real verdict (decoded message or error class) must be the specification's.
(T) seeded large messages (up to and beyond the 16 MiB frame limit, result sets up to 2000 rows / 40 columns, non-ASCII text)
    are encoded, framed, read back and decoded by the real code; WireTrace.tla checks lengths and the frame writer's verdict."""
import json, os, re, shutil
import vlib
from vlib import Check, ToolError, run_tlc, axv, last_json

PROP = "C20"


def cases_from(r):
    out = []
    for t, p in r.printed:
        if t == "CASE":
            out.append(p)
    return out


def model_and_replay(c, wd):
    r = run_tlc("Wire", os.path.join(vlib.SPEC, "MC_Wire.cfg"), workers=4, timeout=900)
    if not r.ok:
        raise ToolError("Wire.tla violates %s - specification error" % r.violated)
    c.add("states", r.distinct)
    c.add("transitions", r.generated)
    cases = cases_from(r)
    if len(cases) < 1000:
        raise ToolError("MC_Wire produced only %d cases" % len(cases))
    path = os.path.join(wd, "cases.ndjson")
    open(path, "w").write("\n".join(cases) + "\n")
    out = os.path.join(wd, "wire-replay.json")
    at = os.path.join(wd, "at.txt")
    rc, so, se = axv(["wire", "replay", "--in", path, "--out", out, "--at", at], timeout=900, check=False, mem_limit=2 << 30)
    if rc != 0:
        # the driver process died inside a decoder (allocation failure aborts, stack overflow, ...): the case it was on is the input
        k = int(open(at).read().strip() or 0) if os.path.exists(at) else 0
        case = json.loads(cases[k])
        p = vlib.save_replay(PROP, "case.json", json.dumps({"case": case, "what": "decoder killed the process (rc %d)" % rc}, indent=1))
        c.violation("decoder killed the process under a 2 GiB address-space limit on bytes %s" % case["bytes"], p)
        return
    s = last_json(so)
    c.add("behaviours_replayed", s["cases"])
    c.add("traces_validated_against_impl", s["cases"])
    c.cov["cases_decoded_ok"] = s["decoded_ok"]
    c.cov["cases_rejected"] = s["cases"] - s["decoded_ok"]
    c.cov["frames_read"] = s["frames"]
    c.add("distinct_nontrivial", s["cases"] - s["decoded_ok"])
    c.sample({"kind": "case", "value": json.loads(cases[len(cases) // 3])})
    if s["divergences"]:
        first = json.load(open(out))["first"][0]
        p = vlib.save_replay(PROP, "case.json", json.dumps(first, indent=1))
        c.violation("decoder disagrees with Wire.tla: %s on bytes %s" % (first["what"], first["case"]["bytes"]), p)


def validate(c, tp, name):
    r = run_tlc("WireTrace", os.path.join(vlib.SPEC, "WireTrace.cfg"), workers=1, dfs=True, env={"TRACE": tp}, timeout=900,
                name="WireTrace-" + name)
    c.add("states", r.distinct)
    c.add("transitions", r.generated)
    return r.ok and not r.postcondition_false and not r.violated, r


def traces(c, tier, seed, wd):
    rounds = 1 if tier == "quick" else 8
    n = 300 if tier == "quick" else 600
    for k in range(rounds):
        tp = os.path.join(wd, "wire-trace-%d.ndjson" % k)
        _, so, _ = axv(["wire", "trace", "--seed", seed * 100 + k, "--messages", n, "--out", tp], timeout=1800)
        s = last_json(so)
        ok, r = validate(c, tp, str(k))
        c.add("traces_validated_against_impl", 1)
        c.add("trace_events", s["events"])
        c.add("messages_near_frame_limit", s["big"])
        if not ok:
            p = vlib.save_replay(PROP, "wire-trace-%d.ndjson" % k, tp)
            c.violation("recorded wire trace rejected: %s" % (r.error_text or r.violated), p)
            return
        if k == 0:
            lines = open(tp).read().splitlines()
            c.sample({"kind": "trace_prefix", "value": [json.loads(x) for x in lines[:5]]})
            for i, line in enumerate(lines):
                e = json.loads(line)
                if e["kind"] == "resp_rows":
                    e["enc_len"] += 1
                    lines[i] = json.dumps(e)
                    break
            bad = os.path.join(wd, "corrupted.ndjson")
            open(bad, "w").write("\n".join(lines) + "\n")
            ok2, r2 = validate(c, bad, "selftest")
            if ok2:
                raise ToolError("binding self-test failed: a corrupted length was accepted")
            c.cov["binding_selftest"] = "corrupted encoded length rejected"


def server_leg(c, seed, wd, cases_path):
    """the real server process, over TCP, with the real codec on our side"""
    import subprocess
    tgt = os.path.join(vlib.HARNESS, "target", "srv")
    p = subprocess.run(["cargo", "build", "--offline", "--quiet", "-p", "axmosdb", "--bin", "axmos-server"], cwd="/repo",
                       env=dict(os.environ, CARGO_TARGET_DIR=tgt, CARGO_NET_OFFLINE="true"), stdout=subprocess.PIPE, stderr=subprocess.STDOUT, text=True)
    if p.returncode != 0:
        raise ToolError("server build failed: " + p.stdout[-600:])
    tp = os.path.join(wd, "wire-server.ndjson")
    rep = os.path.join(wd, "wire-server.json")
    rc, so, _ = axv(["wire", "server", "--server-bin", os.path.join(tgt, "debug", "axmos-server"), "--cases", cases_path, "--seed", seed,
                     "--dir", os.path.join(wd, "srv"), "--out", tp, "--report", rep], timeout=1200, check=False)
    if rc != 0:
        raise ToolError("server leg could not run (rc %s)" % rc)
    s = last_json(so)
    c.add("server_statements", s["statements"])
    c.add("server_rows_compared", s["rows_compared"])
    c.add("server_garbage_frames", s["garbage_frames"])
    ok, r = validate(c, tp, "server")
    c.add("traces_validated_against_impl", 1)
    c.add("trace_events", s["events"])
    if s["problems"] or not ok:
        pth = vlib.save_replay(PROP, "wire-server.ndjson", tp)
        c.violation("the server process: %s" % (s.get("first") or (r.error_text or "trace rejected")), pth)


def run(tier, seed):
    c = Check(PROP, tier, seed, "model_checking")
    wd = vlib.workdir("c20")
    c.assumptions = ["strings cross the wire as bytes; a decoded String is compared with the lossy UTF-8 reading of the specification's bytes",
                     "the byte-string family is every truncation and every substitution of one byte by 0, 1, 2 or 255 in every message of the "
                     "small family; larger inputs are covered by seeded traces whose shape (lengths, counts) the specification checks",
                     "hang = the decoders and the frame reader are pure functions of a finite buffer; end to end the real server process is given 5 s to answer or close a connection that sent a rejected frame, and must still answer Ping afterwards"]
    model_and_replay(c, wd)
    if not c.violations:
        traces(c, tier, seed, wd)
    if not c.violations:
        server_leg(c, seed, wd, os.path.join(wd, "cases.ndjson"))
    c.cov["rule"] = "non-trivial case = a byte string the specification rejects (truncated, wrong version, unknown tag, impossible count)"
    c.cov["exhaustive"] = True
    shutil.rmtree(wd, ignore_errors=True)
    return c.finish()


def replay(path, seed):
    c = Check(PROP, "quick", seed, "model_checking")
    wd = vlib.workdir("c20-replay")
    if path.endswith(".ndjson"):
        ok, r = validate(c, path, "replay")
        if not ok:
            c.violation("trace rejected", path)
    else:
        b = json.load(open(path))
        tmp = os.path.join(wd, "c.ndjson")
        open(tmp, "w").write(json.dumps(b["case"]) + "\n")
        out = os.path.join(wd, "o.json")
        rc, so, _ = axv(["wire", "replay", "--in", tmp, "--out", out], check=False, mem_limit=2 << 30)
        if rc != 0:
            c.violation("decoder killed the process", path)
        elif last_json(so)["divergences"]:
            c.violation(json.load(open(out))["first"][0]["what"], path)
    shutil.rmtree(wd, ignore_errors=True)
    for what, p in c.violations:
        print("VIOLATION property=%s replay=%s" % (PROP, p))
    return 1 if c.violations else 0
