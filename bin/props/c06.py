"""C06 - the chosen plan never changes the answer."""
import _dbprop, dbcheck
PROP = "C06"
def run(tier, seed):
    return _dbprop.run(PROP, tier, seed, [('plan', 20, 300), ('sql', 8, 100)],
        ['every plan variant (as written, index-defeating rewrite id -> id + 0, permuted join operands) is validated against the same reference answer of SqlRel.tla, which makes the variants equal to each other and to the query as written', 'ANALYZE and UPDATE of indexed tables are exercised only through the witnesses of their findings'],
        'history-built databases (index before/after the data, deletes, rolled-back inserts, vacuum); plan_pairs = variant pairs whose EXPLAIN output differs in shape', mc=None, nontrivial_key='plan_pairs')
def replay(path, seed):
    return dbcheck.replay_trace(PROP, path, seed)
