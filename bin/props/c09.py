"""C09 - clean close and reopen preserves everything."""
import _dbprop, dbcheck
PROP = "C09"
def run(tier, seed):
    return _dbprop.run(PROP, tier, seed, [('reopen', 16, 250), ('ddl', 6, 60), ('alter', 6, 40)],
        ['reopen = close (Drop flushes) + Database::open with configuration values drawn at random; the specification has no configuration and no volatile state: a reopen only ends the open transactions', 'histories stay in the domain where the catalog fits one page (16 KiB+ pages at creation): finding MetaTableSplitCorruptsCatalog'],
        'histories with many rolled-back transactions, flushes, vacuum, new tables, split by reopen at random points; after every reopen all tables are read back, a fresh row is inserted into each and read back; reopens counted', mc=None, nontrivial_key='reopens')
def replay(path, seed):
    return dbcheck.replay_trace(PROP, path, seed)
