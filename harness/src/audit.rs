//! Page accounting over the verif::audit walk (C11, also used by C10 and as an oracle in the db drivers).
use axmosdb::Database;
use axmosdb::verif::audit::{Audit, audit};
use serde_json::{Value, json};
use std::collections::HashMap;

/// Every page of the file belongs to exactly one tree (as a node or in one of its overflow chains) or to the free list;
/// the free list is a simple chain ending at last_free; leaves are linked left to right and sit at one depth.
pub fn problems(a: &Audit) -> Vec<String> {
    let mut p: Vec<String> = a.errors.clone();
    let mut owner: HashMap<u64, String> = HashMap::new();
    let mut claim = |id: u64, who: String, p: &mut Vec<String>| {
        if let Some(prev) = owner.get(&id) {
            p.push(format!("page {id} is used twice: {prev} and {who}"));
        } else {
            owner.insert(id, who);
        }
    };
    for (i, id) in a.free_list.iter().enumerate() {
        claim(*id, format!("free list[{i}]"), &mut p);
    }
    if a.free_list.first().copied() != a.first_free { p.push(format!("first_free {:?} is not the head of the free list", a.first_free)); }
    if a.free_list.last().copied() != a.last_free { p.push(format!("last_free {:?} is not the tail of the free list {:?}", a.last_free, a.free_list.last())); }
    for t in &a.trees {
        let who = format!("{} (object {})", t.name, t.object_id);
        for e in &t.errors { p.push(format!("{who}: {e}")); }
        for (pg, slot, e) in &t.undecodable { p.push(format!("{who}: cell {slot} of page {pg} does not decode under the schema: {e}")); }
        for pg in &t.pages { claim(pg.id, format!("{who} node"), &mut p); }
        for (h, c) in &t.chains { for id in c { claim(*id, format!("{who} overflow chain {h}"), &mut p); } }
        // shape
        let leaves: Vec<_> = t.pages.iter().filter(|x| x.leaf).collect();
        if let Some(d) = leaves.first().map(|l| l.depth) {
            if leaves.iter().any(|l| l.depth != d) { p.push(format!("{who}: leaves at different depths")); }
        }
        for w in leaves.windows(2) {
            if w[0].next != Some(w[1].id) || w[1].prev != Some(w[0].id) {
                p.push(format!("{who}: sibling links broken between leaves {} (next {:?}) and {} (prev {:?})", w[0].id, w[0].next, w[1].id, w[1].prev));
            }
        }
        if let (Some(f), Some(l)) = (leaves.first(), leaves.last()) {
            if f.prev.is_some() { p.push(format!("{who}: first leaf {} has a previous sibling {:?}", f.id, f.prev)); }
            if l.next.is_some() { p.push(format!("{who}: last leaf {} has a next sibling {:?}", l.id, l.next)); }
        }
        for pg in t.pages.iter().filter(|x| !x.leaf) {
            if pg.children.len() != pg.slots + 1 { p.push(format!("{who}: interior page {} has {} keys and {} children", pg.id, pg.slots, pg.children.len())); }
        }
    }
    for id in 1..a.total_pages {
        if !owner.contains_key(&id) { p.push(format!("page {id} is neither in a tree nor on the free list (leaked)")); }
    }
    p
}

/// Only what the walk itself can judge (errors, shape of each tree); ownership is decided by the specification.
pub fn problems_structure(a: &Audit) -> Vec<String> {
    problems(a).into_iter().filter(|p| !p.contains("is used twice") && !p.contains("leaked") && !p.contains("first_free") && !p.contains("last_free")).collect()
}

pub fn summary(a: &Audit) -> Value {
    let pr = problems(a);
    json!({"total_pages": a.total_pages, "free": a.free_list.len(), "trees": a.trees.iter().map(|t| json!({"name": t.name, "oid": t.object_id, "root": t.root,
        "pages": t.pages.len(), "cols": t.columns.join(","), "cells": t.cells, "overflow_pages": t.chains.iter().map(|c| c.1.len()).sum::<usize>(), "height": t.pages.iter().map(|x| x.depth + 1).max().unwrap_or(0)})).collect::<Vec<_>>(),
        "problems": pr.iter().take(8).collect::<Vec<_>>(), "nproblems": pr.len()})
}

pub fn run(db: &Database) -> Value {
    summary(&audit(db))
}

pub fn dump(db: &Database) -> Value {
    let a = audit(db);
    json!(a.trees.iter().map(|t| json!({"name": t.name, "root": t.root, "pages": t.pages.iter().map(|p| format!("{}{}[{}] kids{:?} prev{:?} next{:?} ovf{:?} free{}", if p.leaf {"L"} else {"I"}, p.id, p.slots, p.children, p.prev, p.next, p.overflow_heads, p.free_space)).collect::<Vec<_>>(), "errors": t.errors})).collect::<Vec<_>>())
}
