//! SQL-level trace driver (C03 C04 C05 C06 C07 C09 C12 C13 C15): seeded random workloads through the
//! public API, recorded for DbTrace.tla.  `--kind` selects the workload family.
//!
//! The generator stays inside the part of the input space where no *recorded* finding applies
//! (see known_findings.json: e.g. RIGHT/FULL JOIN, HAVING, GROUP BY + ORDER BY, UPDATE on tables with a
//! unique index, two open transactions writing the same row, NULL inside an IN list); the witnesses of those
//! findings are replayed separately (`--kind witness`).
use crate::runner::{Runner, default_cfg};
use crate::sqlgen::*;
use crate::util::{self, Args, Trace};
use rand::Rng;
use rand_chacha::ChaCha8Rng;
use serde_json::json;
use std::path::PathBuf;

pub type R = ChaCha8Rng;

#[derive(Clone)]
pub struct Tab {
    pub def: TableDef,
    pub next_id: i64,
    pub ids: Vec<i64>,
    pub updatable: bool, // no unique index => UPDATE allowed (finding IndexMaintenanceOnUpdate)
    /// value columns that may hold a NULL (an INSERT ran while the column was nullable): SET NOT NULL is only issued on the others
    pub maybe_null: Vec<usize>,
}

pub fn pick<'a, T>(r: &mut R, v: &'a [T]) -> &'a T {
    &v[r.random_range(0..v.len())]
}

const TEXTS: [&str; 8] = ["", "a", "ab", "abc", "b", "ba", "x", "xy"];

pub fn rand_val(r: &mut R, ty: &Ty, nullable: bool) -> V {
    if nullable && r.random_range(0..5) == 0 {
        return V::Null;
    }
    match ty {
        Ty::Int => V::Int(r.random_range(-3..12)),
        Ty::Text => V::Text(pick(r, &TEXTS).to_string()),
        Ty::Bool => V::Bool(r.random_bool(0.5)),
        Ty::Double => V::F2(r.random_range(-6..20)),
    }
}

pub fn rand_table(r: &mut R, name: &str, unique_id: bool) -> Tab {
    let mut cols = vec![ColDef { name: "id".into(), ty: Ty::Int, nn: false }];
    let n = r.random_range(2..5);
    let tys = [Ty::Int, Ty::Int, Ty::Text, Ty::Bool, Ty::Double, Ty::Text];
    for i in 0..n {
        let ty = if i == 0 { Ty::Int } else { pick(r, &tys).clone() };
        cols.push(ColDef { name: format!("c{}", i + 1), ty, nn: r.random_range(0..6) == 0 });
    }
    let uniq = if unique_id { vec![vec![1usize]] } else { vec![] };
    Tab { def: TableDef { name: name.into(), cols, uniq }, next_id: 1, ids: vec![], updatable: !unique_id, maybe_null: vec![] }
}

fn col(t: &Tab, alias: &str, i: usize, base: usize) -> E {
    E::Col(format!("{}.{}", alias, t.def.cols[i].name), base + i + 1)
}

fn cols_of(t: &Tab, ty: &Ty) -> Vec<usize> {
    (0..t.def.cols.len()).filter(|i| t.def.cols[*i].ty == *ty).collect()
}

/// scope: list of (table, alias, base offset)
pub struct Scope<'a>(pub Vec<(&'a Tab, String, usize)>);

impl<'a> Scope<'a> {
    fn any_col(&self, r: &mut R, ty: &Ty) -> Option<E> {
        let mut c = vec![];
        for (t, a, b) in &self.0 {
            for i in cols_of(t, ty) {
                c.push(col(t, a, i, *b));
            }
        }
        if c.is_empty() { None } else { Some(pick(r, &c).clone()) }
    }
}

fn col_of(r: &mut R, sc: &Scope, tys: &[Ty]) -> E {
    let ty = pick(r, tys).clone();
    match sc.any_col(r, &ty) { Some(c) => c, None => sc.any_col(r, &Ty::Int).unwrap() }
}

/// integer expression; every arithmetic node has a column below it (the parser folds constant subtrees in f64)
pub fn int_expr(r: &mut R, sc: &Scope, depth: u32) -> E {
    let c = sc.any_col(r, &Ty::Int).unwrap();
    if depth == 0 || r.random_range(0..3) == 0 {
        return c;
    }
    let lit = E::Lit(V::Int(r.random_range(-2..6)));
    let other = if r.random_bool(0.5) { lit } else { int_expr(r, sc, depth - 1) };
    match r.random_range(0..7) {
        0 => E::Bin("add", Box::new(int_expr(r, sc, depth - 1)), Box::new(other)),
        1 => E::Bin("sub", Box::new(int_expr(r, sc, depth - 1)), Box::new(other)),
        2 => E::Bin("mul", Box::new(int_expr(r, sc, depth - 1)), Box::new(other)),
        3 => E::Bin("add", Box::new(other), Box::new(int_expr(r, sc, depth - 1))),
        4 => E::Bin("div", Box::new(int_expr(r, sc, depth - 1)), Box::new(E::Lit(V::Int(*pick(r, &[1, 2, 3, -2]))))),
        5 => E::Bin("mod", Box::new(int_expr(r, sc, depth - 1)), Box::new(E::Lit(V::Int(*pick(r, &[2, 3, 4]))))),
        _ => E::Neg(Box::new(int_expr(r, sc, depth - 1))),
    }
}

pub fn bool_expr(r: &mut R, sc: &Scope, depth: u32) -> E {
    if depth > 0 && r.random_range(0..10) < 4 {
        return match r.random_range(0..3) {
            0 => E::Bin("and", Box::new(bool_expr(r, sc, depth - 1)), Box::new(bool_expr(r, sc, depth - 1))),
            1 => E::Bin("or", Box::new(bool_expr(r, sc, depth - 1)), Box::new(bool_expr(r, sc, depth - 1))),
            _ => E::Not(Box::new(bool_expr(r, sc, depth - 1))),
        };
    }
    let cmp = ["eq", "ne", "lt", "le", "gt", "ge"];
    match r.random_range(0..12) {
        0 | 1 | 2 => E::Bin(pick(r, &cmp), Box::new(int_expr(r, sc, 1)), Box::new(E::Lit(V::Int(r.random_range(-2..10))))),
        3 => E::Bin(pick(r, &cmp), Box::new(int_expr(r, sc, 1)), Box::new(int_expr(r, sc, 1))),
        4 => match sc.any_col(r, &Ty::Text) {
            Some(c) => E::Bin(pick(r, &cmp), Box::new(c), Box::new(E::Lit(V::Text(pick(r, &TEXTS).to_string())))),
            None => E::IsNull(Box::new(sc.any_col(r, &Ty::Int).unwrap()), r.random_bool(0.5)),
        },
        5 => {
            let c = col_of(r, &sc, &[Ty::Int, Ty::Text, Ty::Bool, Ty::Double]);
            E::IsNull(Box::new(c), r.random_bool(0.5))
        }
        6 => {
            let lo = r.random_range(-2..6);
            E::Between(Box::new(int_expr(r, sc, 1)), Box::new(E::Lit(V::Int(lo))), Box::new(E::Lit(V::Int(lo + r.random_range(0..6)))), r.random_bool(0.4))
        }
        7 => {
            let n = r.random_range(1..4);
            let list = (0..n).map(|_| E::Lit(V::Int(r.random_range(-2..10)))).collect();
            E::In(Box::new(int_expr(r, sc, 1)), list, r.random_bool(0.4))
        }
        8 => match sc.any_col(r, &Ty::Text) {
            Some(c) => {
                let pats = ["a%", "%b", "%", "_", "a_", "%b%", "ab", "", "_%", "x%"];
                E::Like(Box::new(c), Box::new(E::Lit(V::Text(pick(r, &pats).to_string()))), r.random_bool(0.4))
            }
            None => E::Bin("eq", Box::new(int_expr(r, sc, 1)), Box::new(E::Lit(V::Int(1)))),
        },
        9 => match sc.any_col(r, &Ty::Bool) {
            Some(c) => c,
            None => E::Bin("lt", Box::new(int_expr(r, sc, 0)), Box::new(E::Lit(V::Int(5)))),
        },
        10 => match sc.any_col(r, &Ty::Text) {
            Some(c) => E::Bin("eq", Box::new(E::Bin("cat", Box::new(c), Box::new(E::Lit(V::Text("b".into()))))), Box::new(E::Lit(V::Text(pick(r, &["ab", "b", "abb", "xb"]).to_string())))),
            None => E::Bin("ge", Box::new(int_expr(r, sc, 1)), Box::new(E::Lit(V::Int(0)))),
        },
        _ => match sc.any_col(r, &Ty::Double) {
            Some(c) => E::Bin(pick(r, &cmp), Box::new(c), Box::new(E::Lit(V::F2(r.random_range(-4..16))))),
            None => E::Bin("ne", Box::new(int_expr(r, sc, 1)), Box::new(E::Lit(V::Int(0)))),
        },
    }
}

pub fn from_single(t: &Tab) -> Vec<FromItem> {
    vec![FromItem { tbl: t.def.name.clone(), alias: t.def.name.clone(), ncols: t.def.cols.len(), jk: "first", on: lit_true() }]
}

pub fn select_all(t: &Tab) -> Select {
    let sc = Scope(vec![(t, t.def.name.clone(), 0)]);
    let proj = (0..t.def.cols.len()).map(|i| Proj::E(col(t, &sc.0[0].1, i, 0))).collect();
    Select { from: from_single(t), wher: lit_true(), has_where: false, agg: false, group: vec![], proj, distinct: false, order: vec![], limit: -1, offset: 0, full_parens: false }
}

/// random SELECT over 1..3 tables drawn from `tabs`
pub fn rand_select(r: &mut R, tabs: &[Tab], allow_join: bool) -> Select {
    let mut nt = if allow_join && tabs.len() > 1 { *pick(r, &[1, 1, 2, 2, 3]) } else { 1 };
    // the reference evaluation of a join in TLC grows with the product of the table sizes (DISTINCT and ORDER BY square it):
    // histories that let their tables grow (reopen, vac) get narrower joins
    let rows = tabs.iter().map(|t| t.ids.len() + 3).max().unwrap_or(3);
    while nt > 1 && rows.pow(nt as u32) > 4000 { nt -= 1; }
    let mut from = vec![];
    let mut scope_items: Vec<(&Tab, String, usize)> = vec![];
    let mut base = 0;
    for k in 0..nt {
        let t = pick(r, tabs);
        let alias = if nt == 1 { t.def.name.clone() } else { format!("q{}", k + 1) };
        scope_items.push((t, alias.clone(), base));
        let (jk, on) = if k == 0 { ("first", lit_true()) } else {
            let jk = *pick(r, &["inner", "inner", "left", "left", "cross", "right", "full"]);
            let sc = Scope(scope_items.clone());
            let on = if jk == "cross" { lit_true() } else {
                // equi-join between the new table and an earlier one, sometimes with an extra conjunct
                let (pt, pa, pb) = &scope_items[r.random_range(0..k)];
                let l = col(pt, pa, *pick(r, &cols_of(pt, &Ty::Int)), *pb);
                let rr = col(t, &alias, *pick(r, &cols_of(t, &Ty::Int)), base);
                let eq = E::Bin(*pick(r, &["eq", "eq", "eq", "lt", "ge"]), Box::new(l), Box::new(rr));
                if r.random_range(0..4) == 0 { E::Bin("and", Box::new(eq), Box::new(bool_expr(r, &sc, 0))) } else { eq }
            };
            (jk, on)
        };
        from.push(FromItem { tbl: t.def.name.clone(), alias, ncols: t.def.cols.len(), jk, on });
        base += t.def.cols.len();
    }
    let sc = Scope(scope_items);
    let has_where = r.random_range(0..10) < 7;
    let wher = if has_where { bool_expr(r, &sc, 2) } else { lit_true() };
    let mut s = Select { from, wher, has_where, agg: false, group: vec![], proj: vec![], distinct: false, order: vec![], limit: -1, offset: 0, full_parens: r.random_range(0..5) == 0 };
    let shape = r.random_range(0..10);
    if shape < 3 {
        // aggregates, optionally grouped (no HAVING: recorded finding)
        s.agg = true;
        let grouped = r.random_bool(0.6);
        if grouped {
            let g = col_of(r, &sc, &[Ty::Int, Ty::Text, Ty::Bool]);
            s.group.push(g);
            if r.random_range(0..4) == 0 { s.group.push(sc.any_col(r, &Ty::Int).unwrap()); }
            for i in 0..s.group.len() { s.proj.push(Proj::Grp(i + 1)); }
        }
        let n = r.random_range(1..4);
        for _ in 0..n {
            let f = *pick(r, &["count*", "count", "sum", "avg", "min", "max", "count", "sum"]);
            let arg = match f {
                "count*" => lit_true(),
                "sum" | "avg" => int_expr(r, &sc, 1),
                "count" => { col_of(r, &sc, &[Ty::Int, Ty::Text, Ty::Bool]) }
                _ => { col_of(r, &sc, &[Ty::Int, Ty::Text]) }
            };
            s.proj.push(Proj::Agg(f, arg));
        }
        // ORDER BY over items of the select list (group columns or aggregates), sometimes with LIMIT
        if r.random_range(0..10) < 4 {
            let i = r.random_range(1..=s.proj.len());
            s.order.push((i, r.random_bool(0.6)));
            if r.random_bool(0.3) { s.limit = r.random_range(1..4); }
        }
    } else {
        let n = r.random_range(1..4);
        for _ in 0..n {
            let p = match r.random_range(0..6) {
                0 | 1 => int_expr(r, &sc, 2),
                2 => bool_expr(r, &sc, 1),
                _ => { col_of(r, &sc, &[Ty::Int, Ty::Text, Ty::Bool, Ty::Double]) }
            };
            s.proj.push(Proj::E(p));
        }
        s.distinct = r.random_range(0..6) == 0;
        if r.random_range(0..10) < 4 {
            let k = r.random_range(1..=s.proj.len().min(2));
            let mut used = vec![];
            for _ in 0..k {
                let i = r.random_range(1..=s.proj.len());
                if !used.contains(&i) { used.push(i); s.order.push((i, r.random_bool(0.6))); }
            }
        }
        if r.random_range(0..10) < 3 {
            s.limit = r.random_range(0..6);
            if r.random_bool(0.5) { s.offset = *pick(r, &[0i64, 1, 2, 3, 3, 7, 60]); }   // also beyond the number of rows the input produces
        }
    }
    s
}

pub fn rand_insert(r: &mut R, t: &mut Tab, part: i64, nparts: i64, faulty: bool) -> Stmt {
    let n = r.random_range(1..4);
    let full = r.random_range(0..4) != 0;
    let idxs: Vec<usize> = if full { (0..t.def.cols.len()).collect() } else {
        let mut v = vec![0usize];
        for i in 1..t.def.cols.len() { if t.def.cols[i].nn || r.random_bool(0.5) { v.push(i); } }
        v
    };
    let mut rows = vec![];
    for k in 0..n {
        // ids of partition `part` are congruent to it modulo nparts
        while t.next_id.rem_euclid(nparts) != part { t.next_id += 1; }
        let mut id = t.next_id;
        t.next_id += 1;
        // duplicate keys only outside sessions: a key that is invisible to (or was deleted by) an open transaction
        // runs into the recorded findings UniqueNotCheckedAcrossTransactions / UniqueIndexAfterDeleteReinsertRollback
        if faulty && part == 0 && k == n - 1 && !t.def.uniq.is_empty() && !t.ids.is_empty() {
            id = *pick(r, &t.ids); // duplicate key: the statement must be rejected as a whole
        }
        let mut row = vec![];
        for i in &idxs {
            let c = &t.def.cols[*i];
            if *i == 0 { row.push(V::Int(id)); continue; }
            let mut v = rand_val(r, &c.ty, !c.nn);
            if faulty && c.nn && k == 0 && t.def.uniq.is_empty() { v = V::Null; }
            row.push(v);
        }
        rows.push(row);
    }
    Stmt::Insert { tbl: t.def.name.clone(), cols: idxs.iter().map(|i| (*i + 1, t.def.cols[*i].name.clone())).collect(), rows }
}

/// predicate confined to the rows of one partition (so that concurrently open transactions never write the same row)
fn part_pred(r: &mut R, t: &Tab, part: i64, nparts: i64) -> E {
    let sc = Scope(vec![(t, t.def.name.clone(), 0)]);
    let idc = col(t, &t.def.name, 0, 0);
    let mine: Vec<i64> = t.ids.iter().copied().filter(|i| i.rem_euclid(nparts) == part).collect();
    let base = if nparts == 1 { None } else if !mine.is_empty() && r.random_bool(0.6) {
        let k = r.random_range(1..=mine.len().min(3));
        Some(E::In(Box::new(idc.clone()), (0..k).map(|_| E::Lit(V::Int(*pick(r, &mine)))).collect(), false))
    } else {
        Some(E::Bin("eq", Box::new(E::Bin("mod", Box::new(idc.clone()), Box::new(E::Lit(V::Int(nparts))))), Box::new(E::Lit(V::Int(part)))))
    };
    let extra = if r.random_bool(0.6) { Some(bool_expr(r, &sc, 1)) } else { None };
    match (base, extra) {
        (Some(b), Some(x)) => E::Bin("and", Box::new(b), Box::new(x)),
        (Some(b), None) => b,
        (None, Some(x)) => x,
        (None, None) => E::Bin("ge", Box::new(idc), Box::new(E::Lit(V::Int(r.random_range(0..8))))),
    }
}

pub fn rand_delete(r: &mut R, t: &Tab, part: i64, nparts: i64) -> Stmt {
    Stmt::Delete { tbl: t.def.name.clone(), wher: part_pred(r, t, part, nparts), has_where: true }
}

pub fn rand_update(r: &mut R, t: &Tab, part: i64, nparts: i64) -> Stmt {
    let sc = Scope(vec![(t, t.def.name.clone(), 0)]);
    let mut set = vec![];
    let cands: Vec<usize> = (1..t.def.cols.len()).collect();
    let k = r.random_range(1..=cands.len().min(2));
    let mut used = vec![];
    for _ in 0..k {
        let i = *pick(r, &cands);
        if used.contains(&i) { continue; }
        used.push(i);
        let c = &t.def.cols[i];
        // a NOT NULL column only receives literals: an UPDATE that fails at its k-th row keeps the rows before it
        // (findings UpdateStampsCreator + statement not atomic), which the specification does not reproduce
        let e = match c.ty {
            Ty::Int => if !c.nn && r.random_bool(0.5) { int_expr(r, &sc, 1) } else { E::Lit(rand_val(r, &Ty::Int, !c.nn)) },
            _ => E::Lit(rand_val(r, &c.ty, !c.nn)),
        };
        set.push((i + 1, c.name.clone(), e));
    }
    Stmt::Update { tbl: t.def.name.clone(), set, wher: part_pred(r, t, part, nparts), has_where: true }
}

pub fn note_insert(t: &mut Tab, s: &Stmt) {
    if let Stmt::Insert { rows, cols, .. } = s {
        let pos = cols.iter().position(|c| c.0 == 1).unwrap();
        for row in rows { if let V::Int(i) = row[pos] { if !t.ids.contains(&i) { t.ids.push(i); } } }
    }
}

pub fn populate(run: &mut Runner, r: &mut R, t: &mut Tab, n: usize) {
    let mut left = n;
    while left > 0 && !run.hung {
        let s = rand_insert(r, t, 0, 1, false);
        let o = run.auto(&s);
        if o.is_ok() { note_insert(t, &s); }
        left = left.saturating_sub(3);
    }
}

/// the INSERT statements of a small population (executed by the caller)
pub fn populate_direct(r: &mut R, t: &mut Tab, n: usize) -> Vec<Stmt> {
    let mut out = vec![];
    let mut left = n;
    while left > 0 { out.push(rand_insert(r, t, 0, 1, false)); left = left.saturating_sub(3); }
    out
}

/// C05: populations + query grammar, all autocommit
fn seg_sql(run: &mut Runner, r: &mut R) {
    let cfg = if r.random_range(0..3) == 0 { rand_cfg(r, true) } else { default_cfg() };
    run.reset(cfg);
    let nt = r.random_range(1..4);
    let mut tabs: Vec<Tab> = (0..nt).map(|i| { let u = r.random_range(0..4) == 0; rand_table(r, &format!("t{}", i + 1), u) }).collect();
    for t in tabs.iter_mut() {
        run.auto(&Stmt::Create(t.def.clone()));
        let n = r.random_range(0..12);
        populate(run, r, t, n);
    }
    if r.random_range(0..5) < 2 { run.analyze(); }
    let n = r.random_range(15..35);
    for _ in 0..n {
        if run.hung { return; }
        let c = r.random_range(0..100);
        if c < 3 { run.analyze(); }
        else if c < 72 {
            let s = rand_select(r, &tabs, true);
            run.auto(&Stmt::Select(s));
        } else {
            let ti = r.random_range(0..tabs.len());
            let kind = r.random_range(0..10);
            if kind < 4 {
                let faulty = r.random_range(0..6) == 0;
                let s = rand_insert(r, &mut tabs[ti], 0, 1, faulty);
                let o = run.auto(&s);
                if o.is_ok() { note_insert(&mut tabs[ti], &s); }
            } else if kind < 7 && tabs[ti].updatable {
                let s = rand_update(r, &tabs[ti], 0, 1);
                run.auto(&s);
            } else {
                let s = rand_delete(r, &tabs[ti], 0, 1);
                run.auto(&s);
            }
            let all = select_all(&tabs[ti]);
            run.auto(&Stmt::Select(all));
        }
    }
}

/// C03 C04 C07: interleaved sessions; session k writes only rows of partition k
fn seg_txn(run: &mut Runner, r: &mut R) {
    run.reset(default_cfg());
    let nparts = 4i64;
    let nt = r.random_range(1..3);
    let mut tabs: Vec<Tab> = (0..nt).map(|i| { let u = r.random_bool(0.5); rand_table(r, &format!("t{}", i + 1), u) }).collect();
    for t in tabs.iter_mut() {
        run.auto(&Stmt::Create(t.def.clone()));
        let n = r.random_range(2..10);
        populate(run, r, t, n);
    }
    // tables that receive UPDATEs get no DELETE from sessions (finding OwnDeleteOfUpdatedRow)
    let upd_tables: Vec<bool> = tabs.iter().map(|t| t.updatable && r.random_bool(0.5)).collect();
    let mut open: Vec<u32> = vec![];
    let mut wrote: std::collections::HashMap<u32, Vec<(usize, Stmt)>> = Default::default();
    let n = r.random_range(25..60);
    for _ in 0..n {
        if run.hung { return; }
        let c = r.random_range(0..100);
        if c < 12 && open.len() < 3 {
            let s = (1..=3u32).find(|s| !open.contains(s)).unwrap();
            if run.begin(s).is_ok() { open.push(s); wrote.insert(s, vec![]); }
        } else if c < 22 && !open.is_empty() {
            let s = *pick(r, &open);
            let committed = match r.random_range(0..10) {
                0..=5 => run.commit(s).is_ok(),
                6..=8 => { run.rollback(s); false }
                _ => { run.drop_session(s); false }
            };
            if committed { for (ti, st) in wrote.remove(&s).unwrap_or_default() { note_insert(&mut tabs[ti], &st); } } else { wrote.remove(&s); }
            open.retain(|x| *x != s);
        } else {
            // a statement, either autocommit (partition 0) or in an open session (partition = session number)
            let s = if !open.is_empty() && r.random_range(0..10) < 7 { *pick(r, &open) } else { 0 };
            let part = s as i64;
            let ti = r.random_range(0..tabs.len());
            let k = r.random_range(0..100);
            let st = if k < 45 {
                if r.random_bool(0.6) { Stmt::Select(select_all(&tabs[ti])) } else { Stmt::Select(rand_select(r, &tabs, false)) }
            } else if k < 70 {
                // in a session only single-row statements may fail (finding SessionStatementNotAtomic)
                let faulty = r.random_range(0..7) == 0;
                let mut st = rand_insert(r, &mut tabs[ti], part, nparts, faulty);
                if s != 0 && faulty { if let Stmt::Insert { rows, .. } = &mut st { let last = rows.pop().unwrap(); rows.clear(); rows.push(last); } }
                st
            } else if k < 85 && upd_tables[ti] && s == 0 {
                // autocommit UPDATEs, also while sessions are open: the shipped behaviour (every version carries the row
                // creator's id, deviation UpdateStampsCreator) is modelled exactly by Db.tla
                rand_update(r, &tabs[ti], 0, nparts)
            } else if s == 0 || !upd_tables[ti] {
                rand_delete(r, &tabs[ti], part, nparts)
            } else {
                Stmt::Select(select_all(&tabs[ti]))
            };
            let o = if s == 0 { run.auto(&st) } else { run.stmt(s, &st) };
            if o.is_ok() {
                if s == 0 { note_insert(&mut tabs[ti], &st); } else if let Some(w) = wrote.get_mut(&s) { w.push((ti, st)); }
            }
        }
    }
    for s in open.clone() { if r.random_bool(0.5) { run.commit(s); } else { run.rollback(s); } }
    for t in &tabs { run.auto(&Stmt::Select(select_all(t))); }
}


/// C05, exhaustive small scope: every expression of a fixed two-level grammar over a grid table.
/// The enumeration is cut into slices; slice = segment index, so a run of n segments covers n slices.
fn expr_pool() -> (Tab, Vec<E>, Vec<E>) {
    let def = TableDef { name: "g".into(), cols: vec![
        ColDef { name: "id".into(), ty: Ty::Int, nn: false }, ColDef { name: "a".into(), ty: Ty::Int, nn: false },
        ColDef { name: "b".into(), ty: Ty::Int, nn: false }, ColDef { name: "s".into(), ty: Ty::Text, nn: false },
        ColDef { name: "f".into(), ty: Ty::Bool, nn: false }, ColDef { name: "d".into(), ty: Ty::Double, nn: false }], uniq: vec![] };
    let t = Tab { def, next_id: 1, ids: vec![], updatable: true, maybe_null: vec![] };
    let d = || col(&t, "g", 5, 0);
    let a = || col(&t, "g", 1, 0);
    let b = || col(&t, "g", 2, 0);
    let sc = || col(&t, "g", 3, 0);
    let f = || col(&t, "g", 4, 0);
    let li = |i: i64| E::Lit(V::Int(i));
    let bx = |e: E| Box::new(e);
    let mut ints: Vec<E> = vec![a(), b(), li(0), li(1), li(-1), li(2), E::Lit(V::Null)];
    for op in ["add", "sub", "mul"] {
        ints.push(E::Bin(op, bx(a()), bx(b())));
        ints.push(E::Bin(op, bx(a()), bx(li(2))));
        ints.push(E::Bin(op, bx(li(1)), bx(b())));
    }
    ints.push(E::Bin("div", bx(a()), bx(li(2))));
    ints.push(E::Bin("mod", bx(a()), bx(li(2))));
    ints.push(E::Bin("div", bx(b()), bx(li(-2))));
    ints.push(E::Neg(bx(a())));
    ints.push(E::Neg(bx(E::Bin("sub", bx(a()), bx(b())))));
    ints.push(E::Bin("mul", bx(E::Bin("add", bx(a()), bx(li(1)))), bx(b())));
    ints.push(E::Bin("sub", bx(a()), bx(E::Bin("sub", bx(b()), bx(li(1))))));
    let mut atoms: Vec<E> = vec![f(), E::Lit(V::Bool(true)), E::Lit(V::Bool(false)), E::Lit(V::Null)];
    for op in ["eq", "ne", "lt", "le", "gt", "ge"] {
        for (i, l) in ints.iter().enumerate() {
            for (j, r) in ints.iter().enumerate() {
                // keep a column on at least one side (constant subtrees are folded by the parser) and thin the product
                let has_col = |e: &E| !matches!(e, E::Lit(_));
                if !(has_col(l) || has_col(r)) || (i + 2 * j) % 3 != 0 { continue; }
                atoms.push(E::Bin(op, bx(l.clone()), bx(r.clone())));
            }
        }
        atoms.push(E::Bin(op, bx(sc()), bx(E::Lit(V::Text("ab".into())))));
        atoms.push(E::Bin(op, bx(sc()), bx(E::Lit(V::Text("".into())))));
        // integers against doubles with a fractional part, on both sides of zero (the grid pairs -1 with -1.5, 0 with -0.5 and 0.5)
        atoms.push(E::Bin(op, bx(a()), bx(d())));
        atoms.push(E::Bin(op, bx(d()), bx(b())));
        atoms.push(E::Bin(op, bx(d()), bx(li(0))));
        atoms.push(E::Bin(op, bx(li(-1)), bx(d())));
        atoms.push(E::Bin(op, bx(E::Bin("add", bx(a()), bx(b()))), bx(d())));
        atoms.push(E::Bin(op, bx(d()), bx(E::Lit(V::F2(-3)))));
        atoms.push(E::Bin(op, bx(a()), bx(E::Lit(V::F2(-1)))));
    }
    for neg in [false, true] {
        for c in [a(), b(), sc(), f(), d()] { atoms.push(E::IsNull(bx(c), neg)); }
        atoms.push(E::Between(bx(d()), bx(li(-1)), bx(li(1)), neg));
        atoms.push(E::Between(bx(a()), bx(d()), bx(li(2)), neg));
        atoms.push(E::In(bx(d()), vec![li(-1), li(2), E::Lit(V::F2(1))], neg));
        for x in [a(), E::Bin("add", bx(a()), bx(b()))] {
            atoms.push(E::Between(bx(x.clone()), bx(li(0)), bx(li(2)), neg));
            atoms.push(E::Between(bx(x.clone()), bx(b()), bx(li(2)), neg));
            atoms.push(E::Between(bx(x.clone()), bx(li(-1)), bx(E::Lit(V::Null)), neg));
            atoms.push(E::In(bx(x.clone()), vec![li(0), li(2)], neg));
            atoms.push(E::In(bx(x.clone()), vec![li(1), E::Lit(V::Null)], neg));
            atoms.push(E::In(bx(x.clone()), vec![b(), li(-1), li(3)], neg));
        }
        for p in ["a%", "%b", "_", "%", "a_", "", "_b%"] { atoms.push(E::Like(bx(sc()), bx(E::Lit(V::Text(p.into()))), neg)); }
    }
    (t, ints, atoms)
}

fn seg_exprs(run: &mut Runner, seg: u64, nslices: u64) -> usize {
    run.reset(default_cfg());
    let (t, ints, atoms) = expr_pool();
    run.auto(&Stmt::Create(t.def.clone()));
    // grid population: a, b over {NULL,-1,0,2} x {NULL,0,1,3}; s and f cycle
    let av = [V::Null, V::Int(-1), V::Int(0), V::Int(2)];
    let bv = [V::Null, V::Int(0), V::Int(1), V::Int(3)];
    let sv = [V::Text("ab".into()), V::Null, V::Text("".into()), V::Text("b".into()), V::Text("a".into())];
    let fv = [V::Bool(true), V::Bool(false), V::Null];
    let dv = [V::F2(-3), V::F2(-2), V::Null, V::F2(1), V::F2(4), V::F2(-1)]; // -1.5 -1.0 NULL 0.5 2.0 -0.5
    let mut id = 0;
    let mut rows = vec![];
    for x in &av { for y in &bv { id += 1; rows.push(vec![V::Int(id), x.clone(), y.clone(), sv[(id as usize) % 5].clone(), fv[(id as usize) % 3].clone(), dv[(id as usize) % 6].clone()]); } }
    for chunk in rows.chunks(4) {
        run.auto(&Stmt::Insert { tbl: "g".into(), cols: (0..6).map(|i| (i + 1, t.def.cols[i].name.clone())).collect(), rows: chunk.to_vec() });
    }
    let idc = col(&t, "g", 0, 0);
    let mk = |wher: E, proj: Vec<Proj>, full: bool| Select { from: from_single(&t), wher, has_where: true, agg: false, group: vec![], proj, distinct: false, order: vec![], limit: -1, offset: 0, full_parens: full };
    let mut idx: u64 = 0;
    let mut done = 0;
    let mut emit = |run: &mut Runner, s: Select| { idx += 1; if idx % nslices == seg % nslices && !run.hung { run.auto(&Stmt::Select(s)); done += 1; } };
    // level 1: every atom as WHERE, and as a projected value
    for at in &atoms {
        emit(run, mk(at.clone(), vec![Proj::E(idc.clone())], false));
        emit(run, mk(lit_true(), vec![Proj::E(idc.clone()), Proj::E(at.clone())], false));
    }
    for ie in &ints { if !matches!(ie, E::Lit(_)) { emit(run, mk(lit_true(), vec![Proj::E(idc.clone()), Proj::E(ie.clone())], false)); } }
    // level 2: connectives over pairs of atoms (thinned), printed with minimal parentheses
    let n = atoms.len();
    for i in 0..n {
        emit(run, mk(E::Not(Box::new(atoms[i].clone())), vec![Proj::E(idc.clone())], false));
        for j in 0..n {
            if (i * 7 + j * 3) % 11 != 0 { continue; }
            for op in ["and", "or"] {
                let e = E::Bin(op, Box::new(atoms[i].clone()), Box::new(atoms[j].clone()));
                emit(run, mk(e.clone(), vec![Proj::E(idc.clone())], false));
                if (i + j) % 5 == 0 {
                    // level 3: NOT over a connective, and mixed AND/OR nesting on both sides (precedence)
                    emit(run, mk(E::Not(Box::new(e.clone())), vec![Proj::E(idc.clone())], false));
                    let k = (i + 3 * j) % n;
                    let other = if op == "and" { "or" } else { "and" };
                    emit(run, mk(E::Bin(other, Box::new(e.clone()), Box::new(atoms[k].clone())), vec![Proj::E(idc.clone())], false));
                    emit(run, mk(E::Bin(other, Box::new(atoms[k].clone()), Box::new(e.clone())), vec![Proj::E(idc.clone())], false));
                    emit(run, mk(lit_true(), vec![Proj::E(idc.clone()), Proj::E(E::Bin(other, Box::new(E::Not(Box::new(atoms[k].clone()))), Box::new(e)))], false));
                }
            }
        }
    }
    done
}

/// C03: statement- and batch-level atomicity, rollback of every statement kind
fn seg_atom(run: &mut Runner, r: &mut R) {
    run.reset(default_cfg());
    let mut tabs: Vec<Tab> = vec![rand_table(r, "t1", true), rand_table(r, "t2", false)];
    for t in tabs.iter_mut() {
        run.auto(&Stmt::Create(t.def.clone()));
        let n = r.random_range(3..9);
        populate(run, r, t, n);
    }
    let n = r.random_range(12..30);
    for _ in 0..n {
        if run.hung { return; }
        let ti = r.random_range(0..tabs.len());
        match r.random_range(0..10) {
            // autocommit multi-row INSERT whose last row breaks a constraint: nothing of it may stay
            0 | 1 => { let s = rand_insert(r, &mut tabs[ti], 0, 1, true); let o = run.auto(&s); if o.is_ok() { note_insert(&mut tabs[ti], &s); } }
            // batch of DML, sometimes with a failing statement at a random position
            2 | 3 | 4 => {
                let k = r.random_range(1..5);
                let fail_at = if r.random_bool(0.5) { Some(r.random_range(0..k)) } else { None };
                let mut qs = vec![];
                let mut inserted = vec![];
                for i in 0..k {
                    let tj = r.random_range(0..tabs.len());
                    let st = if Some(i) == fail_at {
                        match r.random_range(0..3) {
                            0 => Stmt::Insert { tbl: "nosuch".into(), cols: vec![(1, "id".into())], rows: vec![vec![V::Int(1)]] },
                            1 if !tabs[0].ids.is_empty() => { let id = *pick(r, &tabs[0].ids); Stmt::Insert { tbl: "t1".into(), cols: vec![(1, "id".into()), (2, "c1".into())], rows: vec![vec![V::Int(id), V::Int(0)]] } }
                            _ => Stmt::Delete { tbl: "nosuch".into(), wher: lit_true(), has_where: false },
                        }
                    } else {
                        // rows of a transaction that may roll back are never updated by it: a row whose creator aborted
                        // and that carries deltas panics the next reader (finding MultiDeltaChainMisread)
                        match r.random_range(0..3) {
                            0 if !tabs[tj].updatable => { let s = rand_insert(r, &mut tabs[tj], 0, 1, false); inserted.push((tj, s.clone())); s }
                            1 if tabs[tj].updatable => rand_update(r, &tabs[tj], 0, 1),
                            _ if !tabs[tj].updatable => rand_delete(r, &tabs[tj], 0, 1),
                            _ => Stmt::Select(select_all(&tabs[tj])),
                        }
                    };
                    if matches!(st, Stmt::Select(_)) { continue; }
                    qs.push(st);
                }
                if qs.is_empty() { continue; }
                let o = run.batch(&qs);
                if o.is_ok() { for (tj, s) in inserted { note_insert(&mut tabs[tj], &s); } }
            }
            // a session doing several statements, then rollback / drop / commit
            5 | 6 | 7 => {
                if run.begin(1).is_ok() {
                    let k = r.random_range(1..5);
                    let mut ins = vec![];
                    for _ in 0..k {
                        let tj = r.random_range(0..tabs.len());
                        let st = match r.random_range(0..4) {
                            0 | 1 if !tabs[tj].updatable => { let s = rand_insert(r, &mut tabs[tj], 0, 1, false); ins.push((tj, s.clone())); s }
                            2 if tabs[tj].updatable => rand_update(r, &tabs[tj], 0, 1),
                            _ if !tabs[tj].updatable => rand_delete(r, &tabs[tj], 0, 1),
                            _ => Stmt::Select(select_all(&tabs[tj])),
                        };
                        run.stmt(1, &st);
                        if r.random_range(0..4) == 0 { run.stmt(1, &Stmt::Opaque { sql: "SELEC nonsense FROM".into(), ro: true }); }
                        if r.random_range(0..4) == 0 { run.stmt(1, &Stmt::Insert { tbl: "nosuch".into(), cols: vec![(1, "id".into())], rows: vec![vec![V::Int(1)]] }); }
                    }
                    match r.random_range(0..3) {
                        0 => { if run.commit(1).is_ok() { for (tj, s) in ins { note_insert(&mut tabs[tj], &s); } } }
                        1 => { run.rollback(1); }
                        _ => { run.drop_session(1); }
                    }
                }
            }
            _ => { let s = rand_delete(r, &tabs[ti], 0, 1); run.auto(&s); }
        }
        for t in &tabs { run.auto(&Stmt::Select(select_all(t))); }
    }
}

/// C04: long-lived readers repeat their reads while writers commit and roll back in between
fn seg_snap(run: &mut Runner, r: &mut R) {
    run.reset(default_cfg());
    let u = r.random_bool(0.5);
    let mut t = rand_table(r, "t1", u);
    run.auto(&Stmt::Create(t.def.clone()));
    let n0 = r.random_range(3..10);
    populate(run, r, &mut t, n0);
    let sc_all = Stmt::Select(select_all(&t));
    let nparts = 4i64;
    let mut readers: Vec<u32> = vec![];
    let n = r.random_range(20..45);
    for _ in 0..n {
        if run.hung { return; }
        let c = r.random_range(0..100);
        if c < 12 && readers.len() < 2 {
            let s = if readers.contains(&1) { 2 } else { 1 };
            if run.begin(s).is_ok() { readers.push(s); run.stmt(s, &sc_all); }
        } else if c < 18 && !readers.is_empty() {
            let s = readers.remove(0);
            if r.random_bool(0.5) { run.commit(s); } else { run.rollback(s); }
        } else if c < 55 {
            // a writer transaction: session 3, a few statements on its partition, then commit or rollback
            if run.begin(3).is_ok() {
                let k = r.random_range(1..4);
                let mut ins = vec![];
                for _ in 0..k {
                    let st = match r.random_range(0..3) {
                        0 | 1 => { let s = rand_insert(r, &mut t, 3, nparts, false); ins.push(s.clone()); s }
                        _ => rand_delete(r, &t, 3, nparts),
                    };
                    run.stmt(3, &st);
                    for s in readers.clone() { if r.random_bool(0.5) { run.stmt(s, &sc_all); } }
                }
                if r.random_bool(0.65) { if run.commit(3).is_ok() { for s in ins { note_insert(&mut t, &s); } } } else { run.rollback(3); }
            }
        } else if c < 70 {
            let st = if r.random_bool(0.5) { let s = rand_insert(r, &mut t, 0, nparts, false); s } else { rand_delete(r, &t, 0, nparts) };
            let o = run.auto(&st);
            if o.is_ok() { note_insert(&mut t, &st); }
        }
        // every open reader repeats its read: same snapshot, same answer
        for s in readers.clone() {
            if r.random_bool(0.7) { run.stmt(s, &sc_all); } else { let q = rand_select(r, std::slice::from_ref(&t), false); run.stmt(s, &Stmt::Select(q)); }
        }
    }
    for s in readers { run.commit(s); }
    run.auto(&sc_all);
}

/// C07: constraint histories - duplicates, delete + re-insert, rolled-back inserts, vacuum, index creation after the data
fn seg_uniq(run: &mut Runner, r: &mut R) {
    run.reset(default_cfg());
    // the key: (id), (id, c1), (c1, id) - declared against the order of the table - or (c2 TEXT, id): a fixed-width
    // value after a variable-length one (its alignment inside the index tuple matters)
    let mode = r.random_range(0..10);
    let two_col = (4..8).contains(&mode);
    let text_first = mode >= 8;
    let late_index = r.random_bool(0.5);
    let mut t = rand_table(r, "t1", false);
    t.def.cols[1].nn = two_col || r.random_bool(0.5); // no NULL in a UNIQUE column: finding NullInUniqueColumnRejected
    if text_first { t.def.cols[2] = ColDef { name: "c2".into(), ty: Ty::Text, nn: true }; }
    let ucols: Vec<usize> = if text_first { vec![3, 1] } else if mode >= 6 { vec![2, 1] } else if two_col { vec![1, 2] } else { vec![1] };
    if !late_index { t.def.uniq = vec![ucols.clone()]; }
    t.updatable = false;
    run.auto(&Stmt::Create(t.def.clone()));
    let sel = Stmt::Select(select_all(&t));
    let mut indexed = !late_index;
    let mut keys: Vec<(i64, i64)> = vec![]; // (id, c1) pairs believed live
    let ins = |id: i64, c1: i64, t: &Tab, r: &mut R| -> Stmt {
        let mut row = vec![V::Int(id), V::Int(c1)];
        let mut cols = vec![(1usize, "id".to_string()), (2usize, "c1".to_string())];
        for i in 2..t.def.cols.len() {
            cols.push((i + 1, t.def.cols[i].name.clone()));
            // with the key (c2, id) the text is a function of the id, so that a repeated id is a repeated key
            if text_first && i == 2 { row.push(V::Text(["x", "xyz", ""][(id.rem_euclid(3)) as usize].to_string())); continue; }
            row.push(rand_val(r, &t.def.cols[i].ty, !t.def.cols[i].nn));
        }
        Stmt::Insert { tbl: "t1".into(), cols, rows: vec![row] }
    };
    if late_index {
        // a prefix of rows, then the index, then the history proper
        let k = r.random_range(0..6);
        for _ in 0..k { let id = t.next_id; t.next_id += 1; let c1 = r.random_range(0..4); let st = ins(id, c1, &t, r); if run.auto(&st).is_ok() { keys.push((id, c1)); } }
        // some of them are deleted again (dead, un-vacuumed rows in front of live ones), sometimes re-inserted
        let ndel = if keys.is_empty() { 0 } else { r.random_range(0..=keys.len().min(2)) };
        for _ in 0..ndel {
            let (id, c1) = keys.remove(r.random_range(0..keys.len()));
            let idc = col(&t, "t1", 0, 0);
            run.auto(&Stmt::Delete { tbl: "t1".into(), wher: E::Bin("eq", Box::new(idc), Box::new(E::Lit(V::Int(id)))), has_where: true });
            if r.random_bool(0.4) { let st = ins(id, c1, &t, r); if run.auto(&st).is_ok() { keys.push((id, c1)); } }
        }
        if r.random_bool(0.3) { run.vacuum(); }
        // a rejected attempt first: with a duplicate key in the table the index must be refused and leave nothing behind
        // (name still free, later INSERTs work, the successful attempt below goes through)
        if !keys.is_empty() && r.random_bool(0.5) {
            let (id, c1) = keys[r.random_range(0..keys.len())];
            let dup = ins(id, c1, &t, r);
            if run.auto(&dup).is_ok() {
                run.auto(&Stmt::Index { name: "t1_u".into(), tbl: "t1".into(), cols: ucols.iter().map(|c| (*c, t.def.cols[*c - 1].name.clone())).collect() });
                run.auto(&sel);
                // remove both copies, put one back
                let idc = col(&t, "t1", 0, 0);
                let c1c = col(&t, "t1", 1, 0);
                let pred = E::Bin("and", Box::new(E::Bin("eq", Box::new(idc), Box::new(E::Lit(V::Int(id))))), Box::new(E::Bin("eq", Box::new(c1c), Box::new(E::Lit(V::Int(c1))))));
                run.auto(&Stmt::Delete { tbl: "t1".into(), wher: pred, has_where: true });
                keys.retain(|k| *k != (id, c1));
                let st = ins(id, c1, &t, r);
                if run.auto(&st).is_ok() { keys.push((id, c1)); }
            }
        }
        let o = run.auto(&Stmt::Index { name: "t1_u".into(), tbl: "t1".into(), cols: ucols.iter().map(|c| (*c, t.def.cols[*c - 1].name.clone())).collect() });
        if o.is_ok() { indexed = true; }
        run.auto(&sel);
        // every live key must now be protected by the new index
        for (id, c1) in keys.clone() { let st = ins(id, c1, &t, r); if run.auto(&st).is_ok() { keys.push((id, c1)); } }
        run.auto(&sel);
    }
    let n = r.random_range(18..40);
    for _ in 0..n {
        if run.hung { return; }
        let fresh_id = t.next_id; 
        match r.random_range(0..12) {
            0 | 1 | 2 => { // fresh key
                t.next_id += 1;
                let c1 = r.random_range(0..4);
                let st = ins(fresh_id, c1, &t, r);
                if run.auto(&st).is_ok() { keys.push((fresh_id, c1)); }
            }
            3 | 4 if !keys.is_empty() => { // duplicate of a live key (rejected once the constraint exists); with two columns also a near miss
                let (id, c1) = *pick(r, &keys);
                let c1b = if two_col && r.random_bool(0.5) { c1 + 5 } else { c1 };
                let st = ins(id, c1b, &t, r);
                if run.auto(&st).is_ok() { keys.push((id, c1b)); }
            }
            5 if !keys.is_empty() => { // delete then re-insert the same key
                let (id, c1) = keys.remove(r.random_range(0..keys.len()));
                let idc = col(&t, "t1", 0, 0);
                run.auto(&Stmt::Delete { tbl: "t1".into(), wher: E::Bin("eq", Box::new(idc), Box::new(E::Lit(V::Int(id)))), has_where: true });
                keys.retain(|k| k.0 != id);
                if r.random_bool(0.7) { let st = ins(id, c1, &t, r); if run.auto(&st).is_ok() { keys.push((id, c1)); } }
            }
            6 | 7 => { // a session inserts fresh keys and rolls back; the keys must be free afterwards
                if run.begin(1).is_ok() {
                    t.next_id += 1;
                    let c1 = r.random_range(0..4);
                    let st = ins(fresh_id, c1, &t, r);
                    run.stmt(1, &st);
                    run.stmt(1, &sel);
                    if r.random_bool(0.6) { run.rollback(1); let again = ins(fresh_id, c1, &t, r); if run.auto(&again).is_ok() { keys.push((fresh_id, c1)); } }
                    else if run.commit(1).is_ok() { keys.push((fresh_id, c1)); }
                }
            }
            8 => { // NOT NULL
                t.next_id += 1;
                let mut st = ins(fresh_id, 0, &t, r);
                if let Stmt::Insert { rows, .. } = &mut st { rows[0][1] = V::Null; }
                if run.auto(&st).is_ok() { keys.push((fresh_id, -99)); }
            }
            9 if !keys.is_empty() && indexed => {
                // a session deletes a live key and rolls back: the key is still taken, a duplicate must be refused
                let (id, c1) = *pick(r, &keys);
                if keys.iter().filter(|k| k.0 == id).count() == 1 && run.begin(1).is_ok() {
                    let idc = col(&t, "t1", 0, 0);
                    run.stmt(1, &Stmt::Delete { tbl: "t1".into(), wher: E::Bin("eq", Box::new(idc), Box::new(E::Lit(V::Int(id)))), has_where: true });
                    run.rollback(1);
                    let st = ins(id, c1, &t, r);
                    if run.auto(&st).is_ok() { keys.push((id, c1)); }
                }
            }
            9 => { run.auto(&Stmt::Select(rand_select(r, std::slice::from_ref(&t), false))); }
            10 => { run.vacuum(); }
            _ => { run.auto(&Stmt::Select(rand_select(r, std::slice::from_ref(&t), false))); }
        }
        run.auto(&sel);
    }
}

/// rewrites every reference to column `name` (qualified) as (col + 0): semantically identical, but no index applies
fn defeat_index(e: &E, suffix: &str) -> E {
    let d = |x: &E| Box::new(defeat_index(x, suffix));
    match e {
        E::Col(n, i) if n.ends_with(suffix) => E::Bin("add", Box::new(E::Col(n.clone(), *i)), Box::new(E::Lit(V::Int(0)))),
        E::Col(..) | E::Lit(_) => e.clone(),
        E::Not(x) => E::Not(d(x)),
        E::Neg(x) => E::Neg(d(x)),
        E::Bin(op, l, r) => E::Bin(op, d(l), d(r)),
        E::IsNull(x, n) => E::IsNull(d(x), *n),
        E::Between(x, lo, hi, n) => E::Between(d(x), d(lo), d(hi), *n),
        E::In(x, list, n) => E::In(d(x), list.iter().map(|y| defeat_index(y, suffix)).collect(), *n),
        E::Like(x, p2, n) => E::Like(d(x), d(p2), *n),
    }
}

fn remap_cols(e: &E, f: &dyn Fn(usize) -> usize) -> E {
    let d = |x: &E| Box::new(remap_cols(x, f));
    match e {
        E::Col(n, i) => E::Col(n.clone(), f(*i)),
        E::Lit(_) => e.clone(),
        E::Not(x) => E::Not(d(x)),
        E::Neg(x) => E::Neg(d(x)),
        E::Bin(op, l, r) => E::Bin(op, d(l), d(r)),
        E::IsNull(x, n) => E::IsNull(d(x), *n),
        E::Between(x, lo, hi, n) => E::Between(d(x), d(lo), d(hi), *n),
        E::In(x, list, n) => E::In(d(x), list.iter().map(|y| remap_cols(y, f)).collect(), *n),
        E::Like(x, p2, n) => E::Like(d(x), d(p2), *n),
    }
}

fn map_select(s: &Select, g: &dyn Fn(&E) -> E) -> Select {
    let mut o = s.clone();
    o.wher = g(&s.wher);
    for f in o.from.iter_mut() { f.on = g(&f.on); }
    o.group = s.group.iter().map(|e| g(e)).collect();
    o.proj = s.proj.iter().map(|p| match p { Proj::E(e) => Proj::E(g(e)), Proj::Grp(i) => Proj::Grp(*i), Proj::Agg(f, e) => Proj::Agg(f, g(e)) }).collect();
    o
}

/// swaps the first two FROM items of an inner/cross join (column order of the joined row changes, names do not)
fn permute_join(s: &Select) -> Option<Select> {
    if s.from.len() != 2 || !(s.from[1].jk == "inner" || s.from[1].jk == "cross") { return None; }
    let n1 = s.from[0].ncols;
    let n2 = s.from[1].ncols;
    let f = move |i: usize| if i <= n1 { i + n2 } else { i - n1 };
    let mut o = map_select(s, &|e| remap_cols(e, &f));
    let a = o.from[0].clone();
    let b = o.from[1].clone();
    o.from[0] = FromItem { jk: "first", on: lit_true(), ..b.clone() };
    o.from[1] = FromItem { jk: b.jk, on: b.on.clone(), ..a };
    Some(o)
}

/// C06: the same query under different plans - index vs scan, join order, before/after ANALYZE - on a history-built database
fn seg_plan(run: &mut Runner, r: &mut R, stats: &mut serde_json::Value) {
    run.reset(default_cfg());
    let early = r.random_bool(0.5);
    // the index: on id, or a composite one on (id, c1) / (c1, id) - bounds on its trailing column must not end the scan early
    let composite = r.random_range(0..10);
    let icols: Vec<usize> = match composite { 0..=5 => vec![1], 6 | 7 => vec![1, 2], _ => vec![2, 1] };
    let mut tabs: Vec<Tab> = vec![rand_table(r, "t1", early), rand_table(r, "t2", false)];
    tabs[0].updatable = false;
    if icols.len() > 1 { tabs[0].def.cols[1].nn = true; } // no NULL in a key column: finding NullInUniqueColumnRejected
    if early { tabs[0].def.uniq = vec![icols.clone()]; }
    for t in tabs.iter_mut() { run.auto(&Stmt::Create(t.def.clone())); }
    let mut indexed = early;
    let idx_stmt = Stmt::Index { name: "t1_id".into(), tbl: "t1".into(), cols: icols.iter().map(|c| (*c, tabs[0].def.cols[*c - 1].name.clone())).collect() };
    // a sweep: every comparison against one stored key (the boundary row), the column on either side - and the same on the
    // trailing column of a composite index, alone and under a bound on the leading one
    let sweep = |run: &mut Runner, r: &mut R, t: &Tab| {
        if t.ids.is_empty() { return; }
        let k = *pick(r, &t.ids);
        let v = r.random_range(-3..12);
        let lo = *t.ids.iter().min().unwrap();
        let one = |op: &'static str, flip: bool, c: E, k: i64| if flip { E::Bin(op, Box::new(E::Lit(V::Int(k))), Box::new(c)) } else { E::Bin(op, Box::new(c), Box::new(E::Lit(V::Int(k)))) };
        for op in ["lt", "le", "gt", "ge", "eq"] {
            for flip in [false, true] {
                let mut preds = vec![one(op, flip, col(t, "t1", 0, 0), k)];
                if icols.len() > 1 {
                    preds.push(one(op, flip, col(t, "t1", 1, 0), v));
                    preds.push(E::Bin("and", Box::new(one("ge", false, col(t, "t1", 0, 0), lo)), Box::new(one(op, flip, col(t, "t1", 1, 0), v))));
                }
                for p in preds { let mut s = select_all(t); s.wher = p; s.has_where = true; s.full_parens = false; run.auto(&Stmt::Select(s)); }
            }
        }
    };
    let n = r.random_range(25..55);
    for step in 0..n {
        if run.hung { return; }
        let c = r.random_range(0..100);
        if early && step == 8 { sweep(run, r, &tabs[0]); }
        if c < 30 {
            let ti = r.random_range(0..2);
            let s = rand_insert(r, &mut tabs[ti], 0, 1, false);
            if run.auto(&s).is_ok() { note_insert(&mut tabs[ti], &s); }
        } else if c < 40 {
            let ti = r.random_range(0..2);
            let s = rand_delete(r, &tabs[ti], 0, 1);
            run.auto(&s);
        } else if c < 52 {
            // a session that inserts one row and rolls back (dead index entries)
            if run.begin(1).is_ok() {
                let s = rand_insert(r, &mut tabs[0], 0, 1, false);
                let single = if let Stmt::Insert { tbl, cols, rows } = &s { Stmt::Insert { tbl: tbl.clone(), cols: cols.clone(), rows: vec![rows[0].clone()] } } else { s.clone() };
                run.stmt(1, &single);
                if r.random_bool(0.6) { run.rollback(1); } else if run.commit(1).is_ok() { note_insert(&mut tabs[0], &single); }
            }
        } else if c < 56 && !indexed && step > 5 {
            if run.auto(&idx_stmt).is_ok() { indexed = true; tabs[0].def.uniq = vec![icols.clone()]; sweep(run, r, &tabs[0]); }
        } else if c < 60 { run.vacuum(); }
        else if c < 64 { run.analyze(); }   // statistics change the cost model and with it the chosen plans
        else {
            // the query and its plan variants
            let mut q = if r.random_bool(0.5) {
                // index-friendly predicate on t1.id
                let t = &tabs[0];
                let sc = Scope(vec![(t, "t1".into(), 0)]);
                let idc = col(t, "t1", 0, 0);
                let k = if t.ids.is_empty() { 1 } else { *pick(r, &t.ids) };
                // one bound: every comparison, the column on either side, the literal on a stored key (boundary row)
                let bound = |r: &mut R, c: E, k: i64| -> E {
                    let op = *pick(r, &["lt", "le", "gt", "ge", "eq"]);
                    if r.random_bool(0.5) { E::Bin(op, Box::new(c), Box::new(E::Lit(V::Int(k)))) } else { E::Bin(op, Box::new(E::Lit(V::Int(k))), Box::new(c)) }
                };
                let c1c = col(t, "t1", 1, 0);
                let pred = match r.random_range(0..9) {
                    5 => bound(r, idc, k),
                    6 => { let k2 = if t.ids.is_empty() { 3 } else { *pick(r, &t.ids) }; E::Bin("and", Box::new(bound(r, idc.clone(), k)), Box::new(bound(r, idc, k2))) }
                    7 => { let v = r.random_range(-2..12); bound(r, c1c, v) }
                    8 => { let v = r.random_range(-2..12); E::Bin("and", Box::new(bound(r, idc, k)), Box::new(bound(r, c1c, v))) }
                    0 => E::Bin("eq", Box::new(idc), Box::new(E::Lit(V::Int(k)))),
                    1 => E::Between(Box::new(idc), Box::new(E::Lit(V::Int(k - 2))), Box::new(E::Lit(V::Int(k + 3))), false),
                    2 => E::Bin("gt", Box::new(idc), Box::new(E::Lit(V::Int(k)))),
                    3 => E::Bin("and", Box::new(E::Bin("le", Box::new(idc), Box::new(E::Lit(V::Int(k))))), Box::new(bool_expr(r, &sc, 1))),
                    _ => E::Bin("eq", Box::new(E::Lit(V::Int(k))), Box::new(idc)),
                };
                let mut s = select_all(t);
                s.wher = pred; s.has_where = true;
                if r.random_bool(0.3) { s.order = vec![(1, r.random_bool(0.5))]; }
                if r.random_bool(0.2) { s.limit = r.random_range(1..4); s.order = vec![(1, true)]; }
                s
            } else { rand_select(r, &tabs, true) };
            q.full_parens = false;
            let mut plans: Vec<String> = vec![];
            let mut variants = vec![q.clone()];
            variants.push(map_select(&q, &|e| defeat_index(&defeat_index(e, ".id"), "t1.c1")));
            if let Some(p) = permute_join(&q) { variants.push(p); }
            for v in &variants {
                if let crate::eng::Out::Rows(rows) = run.eng.explain(&v.sql()) { plans.push(rows[0][0]["v"].as_str().unwrap_or("").to_string()); }
                run.auto(&Stmt::Select(v.clone()));
            }
            let shape = |p: &String| -> String { p.split('\n').map(|l| l.trim_start_matches(|c: char| !c.is_alphabetic()).split('(').next().unwrap_or("").to_string()).collect::<Vec<_>>().join(">") };
            let mut shapes: Vec<String> = plans.iter().map(shape).collect();
            shapes.sort(); shapes.dedup();
            stats["plan_pairs"] = json!(stats["plan_pairs"].as_u64().unwrap_or(0) + (shapes.len().saturating_sub(1)) as u64);
            if plans.iter().any(|p| p.contains("IndexScan")) { stats["index_scans"] = json!(stats["index_scans"].as_u64().unwrap_or(0) + 1); }
        }
    }
    if indexed { sweep(run, r, &tabs[0]); }
    for t in &tabs { run.auto(&Stmt::Select(select_all(t))); }
}

fn db_size(run: &Runner) -> u64 {
    std::fs::metadata(&run.dbfile).map(|m| m.len()).unwrap_or(0)
}

/// C13: VACUUM at any point, any number of times, with or without reopen; reads before and after must agree
fn seg_vac(run: &mut Runner, r: &mut R, stats: &mut serde_json::Value) {
    run.reset(default_cfg());
    let u1 = r.random_bool(0.5);
    let mut tabs: Vec<Tab> = vec![rand_table(r, "t1", u1), rand_table(r, "t2", false)];
    for t in tabs.iter_mut() { run.auto(&Stmt::Create(t.def.clone())); let n = r.random_range(2..9); populate(run, r, t, n); }
    let n = r.random_range(20..45);
    let mut zombied = false;
    for _ in 0..n {
        if run.hung { return; }
        let ti = r.random_range(0..2);
        match r.random_range(0..15) {
            0 | 1 => { let s = rand_insert(r, &mut tabs[ti], 0, 1, false); if run.auto(&s).is_ok() { note_insert(&mut tabs[ti], &s); } }
            2 => { let s = rand_delete(r, &tabs[ti], 0, 1); run.auto(&s); }
            3 | 4 if tabs[ti].updatable => { let s = rand_update(r, &tabs[ti], 0, 1); run.auto(&s); }
            5 | 6 => {
                // a transaction that rolls back (or commits): inserts into / deletes from the table without updates
                let tj = if tabs[ti].updatable { 1 - ti } else { ti };
                if !tabs[tj].updatable && run.begin(1).is_ok() {
                    let k = r.random_range(1..4);
                    let mut ins = vec![];
                    for _ in 0..k {
                        let st = if r.random_bool(0.6) { let s = rand_insert(r, &mut tabs[tj], 0, 1, false); ins.push(s.clone()); s } else { rand_delete(r, &tabs[tj], 0, 1) };
                        run.stmt(1, &st);
                    }
                    if r.random_bool(0.65) { run.rollback(1); } else if run.commit(1).is_ok() { for s in ins { note_insert(&mut tabs[tj], &s); } }
                }
            }
            7 | 8 | 9 => {
                for t in &tabs { run.auto(&Stmt::Select(select_all(t))); }
                run.vacuum();
                stats["vacuums"] = json!(stats["vacuums"].as_u64().unwrap_or(0) + 1);
                for t in &tabs { run.auto(&Stmt::Select(select_all(t))); }
            }
            // (no reopen once a session was used after its VACUUM-abort: its abort is not persisted and its rows show up
            //  after the reopen - part of the recorded finding ZombieWritesVisibleAfterVacuum)
            10 if !zombied => { run.reopen(default_cfg()); stats["reopens"] = json!(stats["reopens"].as_u64().unwrap_or(0) + 1); }
            11 => {
                zombied = true;
                // a session that is open across the VACUUM: it is aborted, keeps being used, and must leave no trace.
                let tj = if tabs[ti].updatable { 1 - ti } else { ti };
                if !tabs[tj].updatable && run.begin(2).is_ok() {
                    let st = rand_insert(r, &mut tabs[tj], 0, 1, false);
                    run.stmt(2, &st);
                    // other transactions commit while it is open: its id is then below the last committed one when VACUUM
                    // forgets it - it must still be refused afterwards (the repaired finding ZombieWritesVisibleAfterVacuum)
                    if r.random_bool(0.6) {
                        for _ in 0..r.random_range(1..3) { let s2 = rand_insert(r, &mut tabs[tj], 0, 1, false); if run.auto(&s2).is_ok() { note_insert(&mut tabs[tj], &s2); } }
                    }
                    run.vacuum();
                    stats["vacuums"] = json!(stats["vacuums"].as_u64().unwrap_or(0) + 1);
                    for _ in 0..r.random_range(1..3) { let st = rand_insert(r, &mut tabs[tj], 0, 1, false); run.zombie_stmt(2, &st); }
                    run.zombie_stmt(2, &Stmt::Select(select_all(&tabs[tj])));
                    run.zombie_commit(2);
                    for t in &tabs { run.auto(&Stmt::Select(select_all(t))); }
                }
            }
            _ => { let q = rand_select(r, &tabs, true); run.auto(&Stmt::Select(q)); }
        }
    }
    // storage stays bounded over update / vacuum cycles
    if tabs[1].updatable && !tabs[1].ids.is_empty() {
        let mut sizes = vec![];
        for _ in 0..5 {
            for _ in 0..6 { let s = rand_update(r, &tabs[1], 0, 1); run.auto(&s); }
            run.vacuum();
            sizes.push(db_size(run));
        }
        run.t.ev(json!({"ev": "sizes", "bytes": sizes.iter().map(|b| b / 1024).collect::<Vec<_>>()}));
    }
    for t in &tabs { run.auto(&Stmt::Select(select_all(t))); }
}

pub fn rand_cfg(r: &mut R, small_pages_ok: bool) -> axmosdb::DBConfig {
    let page = if small_pages_ok { *pick(r, &[4096usize, 8192, 16384, 65536]) } else { *pick(r, &[16384usize, 32768, 65536]) };
    crate::eng::cfg(page, *pick(r, &[6usize, 12, 32, 64, 256, 2000, 10000]), *pick(r, &[1usize, 2, 8]), *pick(r, &[3usize, 4, 8]), *pick(r, &[1usize, 2, 3]))
}

/// C09: histories split at arbitrary points by flush / close / open with arbitrary configuration values
fn seg_reopen(run: &mut Runner, r: &mut R, stats: &mut serde_json::Value) {
    // now and then a cache size that does not fit 16 bits (the header field that records it is a u16)
    let c0 = if r.random_range(0..5) == 0 { crate::eng::cfg(4096, *pick(r, &[65536usize, 70000]), 2, 3, 2) } else { rand_cfg(r, true) };
    run.reset(c0);
    let u1 = r.random_bool(0.5);
    let mut tabs: Vec<Tab> = vec![rand_table(r, "t1", u1), rand_table(r, "t2", false)];
    for t in tabs.iter_mut() { run.auto(&Stmt::Create(t.def.clone())); let n = r.random_range(1..7); populate(run, r, t, n); }
    let mut extra_tables = 0;
    let n = r.random_range(25..60);
    for _ in 0..n {
        if run.hung { return; }
        let ti = r.random_range(0..2);
        match r.random_range(0..16) {
            0 | 1 | 2 => { let s = rand_insert(r, &mut tabs[ti], 0, 1, false); if run.auto(&s).is_ok() { note_insert(&mut tabs[ti], &s); } }
            3 => { let s = rand_delete(r, &tabs[ti], 0, 1); run.auto(&s); }
            4 if tabs[ti].updatable => { let s = rand_update(r, &tabs[ti], 0, 1); run.auto(&s); }
            5 | 6 | 7 | 8 => {
                // short transactions, most of them rolled back: many aborted transaction ids
                let tj = if tabs[ti].updatable { 1 - ti } else { ti };
                if !tabs[tj].updatable && run.begin(1).is_ok() {
                    let mut ins = vec![];
                    let st = if r.random_bool(0.7) { let s = rand_insert(r, &mut tabs[tj], 0, 1, false); ins.push(s.clone()); s } else { rand_delete(r, &tabs[tj], 0, 1) };
                    run.stmt(1, &st);
                    if r.random_range(0..5) == 0 { run.flush(); }
                    match r.random_range(0..10) { 0..=6 => { run.rollback(1); } 7 => { run.drop_session(1); } _ => { if run.commit(1).is_ok() { for s in ins { note_insert(&mut tabs[tj], &s); } } } }
                }
            }
            9 => { run.flush(); }
            10 => { run.vacuum(); }
            11 if extra_tables < 2 => {
                // object ids after reopen must not collide: a new table now and then
                extra_tables += 1;
                let t = rand_table(r, &format!("x{}", extra_tables), false);
                run.auto(&Stmt::Create(t.def.clone()));
                let mut t2 = t.clone();
                let s = rand_insert(r, &mut t2, 0, 1, false);
                run.auto(&s);
                run.auto(&Stmt::Select(select_all(&t2)));
            }
            15 if extra_tables == 1 => {
                // a table goes, an empty one takes its pages, nothing is written into it: after close and open it must still be empty
                extra_tables += 1;
                run.auto(&Stmt::Drop("x1".into()));
                let t = rand_table(r, "x2", false);
                run.auto(&Stmt::Create(t.def.clone()));
                if r.random_bool(0.3) { run.flush(); }
                run.reopen(rand_cfg(r, true));
                stats["reopens"] = json!(stats["reopens"].as_u64().unwrap_or(0) + 1);
                run.auto(&Stmt::Select(select_all(&t)));
            }
            12 | 13 | 14 => {
                let cfg = rand_cfg(r, true);
                if r.random_bool(0.5) { run.flush(); }
                run.reopen(cfg);
                stats["reopens"] = json!(stats["reopens"].as_u64().unwrap_or(0) + 1);
                for t in tabs.iter_mut() {
                    run.auto(&Stmt::Select(select_all(t)));
                    // fresh row ids: a new row must neither replace nor hide an old one
                    let s = rand_insert(r, t, 0, 1, false);
                    if run.auto(&s).is_ok() { note_insert(t, &s); }
                    run.auto(&Stmt::Select(select_all(t)));
                }
            }
            _ => { let q = rand_select(r, &tabs, true); run.auto(&Stmt::Select(q)); }
        }
    }
    for t in &tabs { run.auto(&Stmt::Select(select_all(t))); }
}

/// C12: the same workload under different configurations.  The statements depend only on the workload seed; the
/// configuration (page size, cache, pool, min keys, siblings) is drawn separately, so TLC validates the same
/// statement sequence with the same admissible results for every configuration.
fn seg_cfg(run: &mut Runner, wseed: u64, cfg: axmosdb::DBConfig, checkpoints: bool, stats: &mut serde_json::Value) {
    let mut r = util::rng(wseed, 7);
    let r = &mut r;
    run.reset(cfg);
    let small_page = false;
    let mut tabs: Vec<Tab> = { let u = r.random_bool(0.5); vec![rand_table(r, "t1", u), rand_table(r, "t2", false)] };
    for t in tabs.iter_mut() { run.auto(&Stmt::Create(t.def.clone())); }
    // enough rows to need several pages, so that small caches evict
    let rows = if small_page { 40 } else { 150 };
    let nt = tabs.len();
    for i in 0..rows {
        if run.hung { return; }
        let ti = i % nt;
        let s = rand_insert(r, &mut tabs[ti], 0, 1, false);
        if run.auto(&s).is_ok() { note_insert(&mut tabs[ti], &s); }
        if checkpoints && i % 37 == 36 { run.flush(); }
    }
    let n = 25;
    for i in 0..n {
        if run.hung { return; }
        let ti = r.random_range(0..nt);
        // a cache of a handful of pages cannot hold the pages a multi-row UPDATE / DELETE latches until it ends
        // (finding SmallCacheFailsStatements): the draw is made anyway so that every configuration sees the same statements otherwise
        let tiny = cfg.cache_size < 32;
        match r.random_range(0..10) {
            0 | 1 => { let s = rand_delete(r, &tabs[ti], 0, 1); if !tiny { run.auto(&s); } }
            2 if tabs[ti].updatable => { let s = rand_update(r, &tabs[ti], 0, 1); if !tiny { run.auto(&s); } }
            3 => { if run.begin(1).is_ok() { let s = rand_insert(r, &mut tabs[ti], 0, 1, false); run.stmt(1, &s); if r.random_bool(0.5) { run.rollback(1); } else if run.commit(1).is_ok() { note_insert(&mut tabs[ti], &s); } } }
            4 | 5 => { let q = rand_select(r, &tabs, false); run.auto(&Stmt::Select(q)); }   // single-table: joins over tables of this size cost TLC minutes and are covered by the sql / plan kinds
            _ => {
                // aggregate over everything: touches every page
                let t = &tabs[ti];
                let sc = Scope(vec![(t, t.def.name.clone(), 0)]);
                let mut q = select_all(t);
                q.agg = true;
                q.proj = vec![Proj::Agg("count*", lit_true()), Proj::Agg("sum", sc.any_col(r, &Ty::Int).unwrap()), Proj::Agg("min", col(t, &t.def.name, 0, 0)), Proj::Agg("max", col(t, &t.def.name, 0, 0))];
                run.auto(&Stmt::Select(q));
            }
        }
        if checkpoints && i % 9 == 8 { run.flush(); }
    }
    for t in &tabs { run.auto(&Stmt::Select(select_all(t))); }
    // every other workload: a table of long rows (5-8 thousand characters: with 4 KiB pages each row continues in an overflow
    // chain of two or three pages), a third of them rewritten once (a rewrite keeps the old value as a version, and a log
    // record holds the old and the new image and must fit a 40 KiB block: LargeRowExceedsWalBlock). The values are runs of
    // one character, which the specification carries as (character, length). - chains are freed, rebuilt and, under a small cache, written back and
    // read again in between.  The draws are made for every configuration; caches below 16 pages skip the statements
    // (finding SmallCacheFailsStatements).
    if wseed % 2 == 1 {
        let fat_ok = cfg.cache_size >= 16;
        let def = TableDef { name: "t3".into(), cols: vec![ColDef { name: "id".into(), ty: Ty::Int, nn: false }, ColDef { name: "c1".into(), ty: Ty::Int, nn: false }, ColDef { name: "c2".into(), ty: Ty::Text, nn: false }], uniq: vec![] };
        let long = |r: &mut R| -> V { let n = r.random_range(5000..8000); V::Text([*pick(r, &["p", "q", "r"])].repeat(n).concat()) };
        if fat_ok { run.auto(&Stmt::Create(def.clone())); }
        let cols = vec![(1usize, "id".to_string()), (2usize, "c1".to_string()), (3usize, "c2".to_string())];
        for id in 1..=60i64 {
            let st = Stmt::Insert { tbl: "t3".into(), cols: cols.clone(), rows: vec![vec![V::Int(id), V::Int(r.random_range(-3..12)), long(r)]] };
            if fat_ok { run.auto(&st); }
        }
        let t3 = Tab { def: def.clone(), next_id: 61, ids: (1..=60).collect(), updatable: true, maybe_null: vec![] };
        let first = r.random_range(0..60i64);
        for i in 0..20 {
            let id = (first + 7 * i as i64) % 60 + 1;
            let idc = col(&t3, "t3", 0, 0);
            let st = Stmt::Update { tbl: "t3".into(), set: vec![(3, "c2".into(), E::Lit(long(r)))], wher: E::Bin("eq", Box::new(idc), Box::new(E::Lit(V::Int(id)))), has_where: true };
            if fat_ok { run.auto(&st); }
            if checkpoints && i % 4 == 3 { run.flush(); }
        }
        if fat_ok { run.auto(&Stmt::Select(select_all(&t3))); }
    }
    stats["configs"] = json!(stats["configs"].as_u64().unwrap_or(0) + 1);
}

/// C15 C08 C09: schema changes (SET / DROP NOT NULL) in autocommit, DML before and after them, and the process dying at
/// quiescent points (the files as they are on disk are copied and opened: recovery redoes the logged statements, schema
/// changes included) or closing cleanly; the history then simply continues on the recovered database.
fn seg_alter(run: &mut Runner, r: &mut R, stats: &mut serde_json::Value) {
    run.reset(default_cfg());
    let u2 = r.random_bool(0.4);
    let mut tabs: Vec<Tab> = vec![rand_table(r, "t1", false), rand_table(r, "t2", u2)];
    // about half of the value columns start out NOT NULL
    for t in tabs.iter_mut() { for ci in 1..t.def.cols.len() { if r.random_bool(0.5) { t.def.cols[ci].nn = true; } } }
    for t in tabs.iter_mut() { run.auto(&Stmt::Create(t.def.clone())); populate(run, r, t, 5); for ci in 1..t.def.cols.len() { if !t.def.cols[ci].nn { t.maybe_null.push(ci); } } }
    let n = r.random_range(20..45);
    for step in 0..n {
        if run.hung { return; }
        let ti = r.random_range(0..2);
        let c = r.random_range(0..100);
        if c < 22 {
            // toggle NOT NULL of a value column: DROP always; SET only when the column was declared NOT NULL (so it holds no NULL)
            let cands: Vec<usize> = (1..tabs[ti].def.cols.len()).filter(|ci| tabs[ti].def.cols[*ci].nn || !tabs[ti].maybe_null.contains(ci)).collect();
            if cands.is_empty() { continue; }
            let ci = *pick(r, &cands);
            let was = tabs[ti].def.cols[ci].nn;
            let to = if was { false } else { !tabs[ti].maybe_null.contains(&ci) };
            if !was && !to { continue; }
            let st = Stmt::AlterNn { tbl: tabs[ti].def.name.clone(), col: (ci + 1, tabs[ti].def.cols[ci].name.clone()), nn: to };
            // now and then an older transaction is open across the ALTER and reads the table afterwards: it was created before its
            // snapshot, so it is still there for it, with its rows
            let older = r.random_bool(0.4) && run.begin(2).is_ok();
            if run.auto(&st).is_ok() { tabs[ti].def.cols[ci].nn = to; }
            if older { run.stmt(2, &Stmt::Select(select_all(&tabs[ti]))); if r.random_bool(0.5) { run.commit(2); } else { run.rollback(2); } }
            stats["alters"] = json!(stats["alters"].as_u64().unwrap_or(0) + 1);
        } else if c < 60 {
            let s = rand_insert(r, &mut tabs[ti], 0, 1, false);
            if run.auto(&s).is_ok() { note_insert(&mut tabs[ti], &s); let t = &mut tabs[ti]; for ci in 1..t.def.cols.len() { if !t.def.cols[ci].nn && !t.maybe_null.contains(&ci) { t.maybe_null.push(ci); } } }
        } else if c < 68 { let s = rand_delete(r, &tabs[ti], 0, 1); run.auto(&s); }
        else if c < 76 { run.flush(); }
        else if c < 88 || step + 1 == n {
            if r.random_bool(0.7) { run.crash_reopen(default_cfg()); stats["crash_reopens"] = json!(stats["crash_reopens"].as_u64().unwrap_or(0) + 1); } else { run.reopen(default_cfg()); }
            stats["reopens"] = json!(stats["reopens"].as_u64().unwrap_or(0) + 1);
            for t in &tabs { run.auto(&Stmt::Select(select_all(t))); }
        } else { run.auto(&Stmt::Select(select_all(&tabs[ti]))); }
    }
    for t in &tabs { run.auto(&Stmt::Select(select_all(t))); }
}

/// C15: DDL interleaved with DML, inside committed and rolled-back transactions, names reused, reopen at the end
fn seg_ddl(run: &mut Runner, r: &mut R, stats: &mut serde_json::Value) {
    run.reset(default_cfg());
    let mut live: Vec<Tab> = vec![];
    let mut counter = 0;
    let names = ["a", "b", "c"];
    let base = rand_table(r, "keep", false);
    let mut keep = base.clone();
    run.auto(&Stmt::Create(keep.def.clone()));
    populate(run, r, &mut keep, 4);
    let n = r.random_range(18..40);
    for _ in 0..n {
        if run.hung { return; }
        counter += 1;
        // an older transaction that stays open (idle) while the DDL runs: catalog rows must carry their creator's id, not the oldest active one
        let idle = r.random_bool(0.3) && run.begin(2).is_ok();
        if idle && r.random_bool(0.5) { run.stmt(2, &Stmt::Select(select_all(&keep))); }
        let in_session = r.random_bool(0.45);
        let s: u32 = if in_session { 1 } else { 0 };
        if in_session && !run.begin(1).is_ok() { continue; }
        let exec = |run: &mut Runner, st: &Stmt| if s == 0 { run.auto(st) } else { run.stmt(s, st) };
        let mut created: Vec<Tab> = vec![];
        let mut dropped: Vec<String> = vec![];
        let will_commit = !in_session || r.random_bool(0.55);
        let k = r.random_range(1..4);
        for _ in 0..k {
            match r.random_range(0..10) {
                0 | 1 | 2 => {
                    // CREATE TABLE (fresh name, or one that exists: must be rejected)
                    let name = *pick(r, &names);
                    let exists = live.iter().any(|t| t.def.name == name) || created.iter().any(|t| t.def.name == name);
                    let u = r.random_bool(0.3) && !exists;
                    let mut t = rand_table(r, name, u);
                    let o = exec(run, &Stmt::Create(t.def.clone()));
                    if o.is_ok() {
                        let st = rand_insert(r, &mut t, 0, 1, false);
                        if exec(run, &st).is_ok() { note_insert(&mut t, &st); }
                        created.push(t);
                    }
                }
                // DROP only where it will be committed (finding DropRolledBackDestroysTable)
                3 if will_commit && !live.is_empty() && !in_session => {
                    let i = r.random_range(0..live.len());
                    let name = live[i].def.name.clone();
                    // autocommit: the drop is in effect at once, the old definition must not be used any more
                    if exec(run, &Stmt::Drop(name.clone())).is_ok() { live.retain(|t| t.def.name != name); dropped.push(name); }
                }
                4 => {
                    // a name that is not there: an error without IF EXISTS, a no-op with it - and every other table stays
                    if r.random_bool(0.5) { exec(run, &Stmt::Drop("nosuch".into())); } else { exec(run, &Stmt::DropIfExists("nosuch".into())); }
                }
                5 | 6 => {
                    // DML on another table in the same transaction
                    let st = rand_insert(r, &mut keep, 0, 1, false);
                    if exec(run, &st).is_ok() && will_commit { note_insert(&mut keep, &st); }
                }
                7 => {
                    // a table created in this transaction is usable inside it
                    if let Some(t) = created.last_mut() { let st = rand_insert(r, t, 0, 1, false); if exec(run, &st).is_ok() { note_insert(t, &st); } let q = select_all(t); exec(run, &Stmt::Select(q)); }
                }
                _ => {
                    let all: Vec<&Tab> = live.iter().chain(created.iter()).collect();
                    if !all.is_empty() { let t = *pick(r, &all); let q = select_all(t); exec(run, &Stmt::Select(q)); }
                    // a name that does not exist (any more) must not resolve
                    let name = *pick(r, &names);
                    let known = live.iter().chain(created.iter()).any(|t| t.def.name == name) || dropped.iter().any(|d| d == name);
                    if !known { exec(run, &Stmt::Select(Select { from: vec![FromItem { tbl: name.to_string(), alias: "z".into(), ncols: 1, jk: "first", on: lit_true() }], wher: lit_true(), has_where: false, agg: false, group: vec![], proj: vec![Proj::E(E::Col("z.id".into(), 1))], distinct: false, order: vec![], limit: -1, offset: 0, full_parens: false })); }
                }
            }
        }
        if in_session {
            if will_commit { if run.commit(1).is_ok() { live.retain(|t| !dropped.contains(&t.def.name)); live.extend(created); } }
            else { if r.random_bool(0.5) { run.rollback(1); } else { run.drop_session(1); } }
        } else { live.extend(created); }
        if idle { if r.random_bool(0.5) { run.commit(2); } else { run.rollback(2); } }
        // other tables are never disturbed; every live table reads back
        run.auto(&Stmt::Select(select_all(&keep)));
        for t in &live { run.auto(&Stmt::Select(select_all(t))); }
        // a clean close, or the process dying here (no transaction is open): recovery replays the DDL and DML of the log in their order
        if counter % 9 == 0 || r.random_range(0..12) == 0 {
            if r.random_bool(0.5) { run.reopen(default_cfg()); } else { run.crash_reopen(default_cfg()); stats["crash_reopens"] = json!(stats["crash_reopens"].as_u64().unwrap_or(0) + 1); }
            stats["reopens"] = json!(stats["reopens"].as_u64().unwrap_or(0) + 1);
            run.auto(&Stmt::Select(select_all(&keep)));
            for t in &live { run.auto(&Stmt::Select(select_all(t))); }
        }
    }
    run.reopen(default_cfg());
    run.auto(&Stmt::Select(select_all(&keep)));
    for t in &live { run.auto(&Stmt::Select(select_all(t))); }
}

fn soup(r: &mut R) -> String {
    let toks = ["SELECT", "FROM", "WHERE", "INSERT", "INTO", "VALUES", "DELETE", "CREATE", "TABLE", "INDEX", "UNIQUE", "AND", "OR", "NOT", "NULL", "IS", "IN", "BETWEEN", "LIKE",
        "GROUP", "BY", "ORDER", "LIMIT", "OFFSET", "JOIN", "LEFT", "ON", "AS", "DISTINCT", "COUNT", "SUM", "(", ")", ",", "*", "+", "-", "/", "%", "=", "<", ">", "<=", "<>", "||", ";", ".",
        "t1", "t2", "id", "c1", "c2", "1", "0", "-1", "99999999999999999999", "1.5", "'a'", "''", "'", "\"", "TRUE", "FALSE", "BEGIN", "COMMIT", "CASE", "WHEN", "THEN", "END", "EXISTS", "HAVING", "UNION", "\u{0}", "é", "🙂"];
    let n = r.random_range(1..14);
    (0..n).map(|_| *pick(r, &toks)).collect::<Vec<_>>().join(" ")
}

fn garbage(r: &mut R) -> String {
    let n = r.random_range(0..40);
    let bytes: Vec<u8> = (0..n).map(|_| r.random::<u8>()).collect();
    String::from_utf8_lossy(&bytes).into_owned()
}

fn mutate(r: &mut R, sql: &str) -> String {
    let mut toks: Vec<String> = sql.split(' ').map(String::from).collect();
    match r.random_range(0..6) {
        0 => { let k = r.random_range(0..toks.len()); toks.truncate(k); }
        1 => { let k = r.random_range(0..toks.len()); toks.remove(k); }
        2 => { let k = r.random_range(0..toks.len()); let t = toks[k].clone(); toks.insert(k, t); }
        3 => { let k = r.random_range(0..toks.len()); toks[k] = "(".repeat(r.random_range(1..60)); }
        4 => { let k = r.random_range(0..toks.len()); let j = r.random_range(0..toks.len()); toks.swap(k, j); }
        _ => { let k = r.random_range(0..toks.len()); toks[k] = soup(r); }
    }
    toks.join(" ")
}

/// C16: any input yields a result or an error; the pool stays alive; the data is what it was.
/// Every hostile input runs inside a session that is rolled back afterwards, so whatever it did must be gone.
fn seg_fuzz(run: &mut Runner, r: &mut R, stats: &mut serde_json::Value) {
    run.reset(default_cfg());
    let mut tabs: Vec<Tab> = vec![rand_table(r, "t1", true), rand_table(r, "t2", false)];
    for t in tabs.iter_mut() { t.updatable = false; run.auto(&Stmt::Create(t.def.clone())); populate(run, r, t, 6); }
    let banned = ["UPDATE", "DROP", "ALTER", "VACUUM", "ANALYZE", "TRUNCATE"]; // effects that a rollback does not undo (recorded findings) or that are not statements
    let n = r.random_range(40..90);
    let mut inputs = 0u64;
    for i in 0..n {
        if run.hung { return; }
        let valid = match r.random_range(0..3) { 0 => Stmt::Select(rand_select(r, &tabs, true)).sql(), 1 => rand_insert(r, &mut tabs[1].clone(), 0, 1, false).sql(), _ => rand_delete(r, &tabs[1], 0, 1).sql() };
        let text = match r.random_range(0..10) {
            0 | 1 => garbage(r),
            2 | 3 | 4 => soup(r),
            5 | 6 | 7 => mutate(r, &valid),
            // well-formed but ill-typed / failing at run time
            _ => pick(r, &["SELECT t1.id / 0 FROM t1", "SELECT t1.id % 0 FROM t1", "SELECT t1.c1 + 'a' FROM t1", "SELECT nosuch FROM t1", "SELECT t1.id FROM nosuch",
                 "INSERT INTO t1 (id) VALUES (1, 2)", "INSERT INTO t1 (id) VALUES ('x')", "INSERT INTO t2 (id, c1) VALUES (99999999999999999999, 1)", "SELECT t1.id FROM t1 WHERE t1.id = 'a'",
                 "SELECT -t1.id * 2147483647 * 2147483647 FROM t1", "SELECT t1.id FROM t1 LIMIT -1", "SELECT t1.id FROM t1 ORDER BY 99", "DELETE FROM t1 WHERE t1.id / 0 = 1",
                 "SELECT COUNT(*) FROM t1 GROUP BY nosuch", "SELECT t1.id FROM t1 WHERE t1.id IN ()", "SELECT t1.id FROM t1 WHERE t1.c1 LIKE 5", "INSERT INTO t1 (id, c1) VALUES (NULL, NULL)",
                 "SELECT (SELECT 1) FROM t1", "SELECT CASE WHEN t1.id = 1 THEN 1 ELSE 0 END FROM t1", "SELECT t1.id FROM t1 WHERE EXISTS (SELECT 1 FROM t2)"]).to_string(),
        };
        let up = text.to_uppercase();
        if banned.iter().any(|b| up.contains(b)) { continue; }
        inputs += 1;
        let in_session = i % 3 != 0;
        if in_session {
            if !run.begin(1).is_ok() { continue; }
            run.stmt(1, &Stmt::Opaque { sql: text, ro: true });
            // the same session keeps working after the error (a read whose answer does not depend on what the input did)
            let mut probe = select_all(&tabs[0]);
            probe.wher = E::Bin("lt", Box::new(col(&tabs[0], &tabs[0].def.name, 0, 0)), Box::new(E::Lit(V::Int(-1000))));
            probe.has_where = true;
            run.stmt(1, &Stmt::Select(probe));
            run.rollback(1);
        } else {
            // autocommit: only inputs that cannot change anything (they do not start with a DML / DDL keyword)
            let first = up.trim_start().split(' ').next().unwrap_or("").to_string();
            if ["INSERT", "DELETE", "CREATE"].contains(&first.as_str()) { continue; }
            run.auto(&Stmt::Opaque { sql: text, ro: true });
        }
        // liveness: more trivial statements than the pool has workers
        for _ in 0..3 { run.auto(&Stmt::Select(select_all(&tabs[r.random_range(0..2)]))); }
    }
    // a statement that must fail after doing real work: a unique index over a column that holds a duplicate. It has to come back
    // as an error (not hang on its own half-built tree), leave nothing behind, and the table must stay usable.
    let t2 = tabs[1].clone();
    let mut dup = |id: i64, r: &mut R| -> Stmt {
        let mut row = vec![V::Int(id), V::Int(77)];
        for c in t2.def.cols.iter().skip(2) { row.push(rand_val(r, &c.ty, false)); }
        Stmt::Insert { tbl: "t2".into(), cols: t2.def.cols.iter().enumerate().map(|(i, c)| (i + 1, c.name.clone())).collect(), rows: vec![row] }
    };
    let (d1, d2, d3) = (dup(9001, r), dup(9002, r), dup(9003, r));
    run.auto(&d1);
    run.auto(&d2);
    run.auto(&Stmt::Index { name: "t2_fz".into(), tbl: "t2".into(), cols: vec![(2, "c1".into())] });
    run.auto(&d3);
    run.auto(&Stmt::Select(select_all(&t2)));
    stats["inputs"] = json!(stats["inputs"].as_u64().unwrap_or(0) + inputs + 1);
}

pub fn main(a: &Args) -> i32 {
    crate::eng::install_panic_hook();
    let seed = a.num("seed", 1);
    let segments = a.num("segments", 10);
    let kind = a.str("kind", "sql");
    let dir = PathBuf::from(a.str("dir", "/verif/work/dbdrv"));
    let out = PathBuf::from(a.str("out", "/verif/work/db-trace.ndjson"));
    let mut run = Runner::new(dir, Trace::create(&out));
    let mut r = util::rng(seed, 1);
    let mut done = 0;
    let mut extra = 0usize;
    let mut stats = json!({});
    for _ in 0..segments {
        match kind.as_str() {
            "sql" => seg_sql(&mut run, &mut r),
            "txn" => seg_txn(&mut run, &mut r),
            "exprs" => { let n = seg_exprs(&mut run, (seed + done as u64) % 240, 240); extra += n; }
            "atom" => seg_atom(&mut run, &mut r),
            "snap" => seg_snap(&mut run, &mut r),
            "uniq" => seg_uniq(&mut run, &mut r),
            "plan" => seg_plan(&mut run, &mut r, &mut stats),
            "vac" => seg_vac(&mut run, &mut r, &mut stats),
            "reopen" => seg_reopen(&mut run, &mut r, &mut stats),
            "cfg" => {
                // one workload (seed-determined), several configurations: segment index picks the configuration
                let mut cr = util::rng(seed / 8, 99);
                let wseed = seed / 8;
                // the default, three fixed small-page / small-cache corners (caches that hold part of the working set: pages are
                // written back and read again all the time), four drawn at random
                let grid: Vec<axmosdb::DBConfig> = (0..8).map(|i| match i {
                    0 => default_cfg(),
                    1 => crate::eng::cfg(4096, 24, 2, 3, 2),
                    2 => crate::eng::cfg(4096, 32, 1, 4, 1),
                    3 => crate::eng::cfg(8192, 16, 2, 3, 3),
                    _ => rand_cfg(&mut cr, true) }).collect();
                let c = grid[((seed % 8) as usize + done) % 8];
                seg_cfg(&mut run, wseed, c, (seed / 8) % 2 == 0, &mut stats);
            }
            "ddl" => seg_ddl(&mut run, &mut r, &mut stats),
            "alter" => seg_alter(&mut run, &mut r, &mut stats),
            "fuzz" => seg_fuzz(&mut run, &mut r, &mut stats),
            other => { eprintln!("unknown kind {other}"); return 2; }
        }
        if run.hung { break; }
        done += 1;
    }
    let (events, stmts, errors, panics, hung) = run.finish();
    let mut out = json!({"kind": kind, "segments": done, "events": events, "stmts": stmts, "errors": errors, "panics": panics, "hung": hung, "enumerated": extra});
    if let Some(m) = stats.as_object() { for (k, v) in m { out[k] = v.clone(); } }
    let mut hits = crate::eng::KNOWN_PANIC_HITS.lock().unwrap().clone();
    hits.sort(); hits.dedup();
    out["known_panic_hits"] = json!(hits);
    println!("{}", out);
    0
}
