//! C14 driver: several client threads use one database at once, each through autocommit calls or its own session.
//! Writers own one table each, readers read tables nobody writes, so every result is determined by the client's own
//! history: the calls of all clients, merged in the order in which they returned, must be a behaviour of Db.tla (DbTrace.tla),
//! every call must return within the watchdog limit and none may fail for internal reasons.
use crate::dbdrv::{Tab, note_insert, populate_direct, rand_delete, rand_insert, rand_select, rand_table, rand_update, select_all};
use crate::eng::{self, Out, conv, err};
use crate::runner::out_json;
use crate::sqlgen::Stmt;
use crate::util::{self, Args, Trace};
use axmosdb::Database;
use rand::Rng;
use serde_json::{Value, json};
use std::sync::{Arc, Mutex, atomic::{AtomicBool, AtomicU64, Ordering}};

enum Ev { Auto(Stmt, Out), Begin(u32, Out), Stmt(u32, Stmt, Out), Commit(u32, Out), Rollback(u32, Out) }

fn exec(db: &Database, sql: &str) -> Out {
    match std::panic::catch_unwind(std::panic::AssertUnwindSafe(|| db.execute(sql).map(conv).unwrap_or_else(err))) { Ok(o) => o, Err(_) => Out::Panic("client thread".into()) }
}

fn one_run(a: &Args, seed: u64, round: u64, t: &mut Trace, stats: &mut Value) -> bool {
    let dir = std::path::PathBuf::from(a.str("dir", "/verif/work/conc-db"));
    let _ = std::fs::remove_dir_all(&dir);
    std::fs::create_dir_all(&dir).unwrap();
    let mut r = util::rng(seed, 14 + round);
    let writers = r.random_range(2..5usize);
    let readers = r.random_range(1..4usize);
    let pool = r.random_range(2..9usize);
    let cfg = eng::cfg(16384, 2000, pool, 3, 2);
    let db = match Database::create(dir.join("db.axm"), cfg) { Ok(d) => Arc::new(d), Err(e) => { t.ev(json!({"ev": "reset", "out": err(e).json()})); return false; } };
    t.ev(json!({"ev": "reset", "cfg": crate::runner::cfg_json(&cfg), "out": {"k": "unit"}, "writers": writers, "readers": readers}));
    // setup (single-threaded): one table per writer, two read-only tables
    let mut next_tx = 1u64;
    let mut emit_auto = |t: &mut Trace, st: &Stmt, o: &Out, next_tx: &mut u64| {
        t.ev(json!({"ev": "begin", "s": 0, "tx": *next_tx, "auto": true, "out": {"k": "unit"}}));
        *next_tx += 1;
        t.ev(json!({"ev": "stmt", "s": 0, "sql": st.sql(), "q": st.json(), "out": out_json(o)}));
        if o.is_ok() { t.ev(json!({"ev": "commit", "s": 0, "auto": true, "out": {"k": "unit"}})); } else { t.ev(json!({"ev": "rollback", "s": 0, "auto": true})); }
    };
    let mut wt: Vec<Tab> = (0..writers).map(|k| rand_table(&mut r, &format!("w{}", k + 1), false)).collect();
    let mut ro: Vec<Tab> = (0..2).map(|k| rand_table(&mut r, &format!("r{}", k + 1), false)).collect();
    for tb in wt.iter_mut().chain(ro.iter_mut()) {
        let st = Stmt::Create(tb.def.clone());
        let o = exec(&db, &st.sql());
        emit_auto(t, &st, &o, &mut next_tx);
        for st in populate_direct(&mut r, tb, 6) { let o = exec(&db, &st.sql()); if o.is_ok() { note_insert(tb, &st); } emit_auto(t, &st, &o, &mut next_tx); }
    }
    // Every other round the schedule is perturbed inside the engine: the yield-point hook (feature verif) runs before and
    // after every page latch is taken and yields or sleeps there according to a seeded counter, so that the windows around
    // latch hand-over (Latch.tla: Acquire / Release of parent and child) are entered by other threads far more often than
    // the OS scheduler alone would allow.
    let perturbed = round % 2 == 1;
    let yields = Arc::new(AtomicU64::new(0));
    if perturbed {
        let ctr = Arc::new(AtomicU64::new(seed.wrapping_mul(7919).wrapping_add(round)));
        let y = yields.clone();
        axmosdb::verif::set_yield_hook(Some(Box::new(move |_p| {
            let x = ctr.fetch_add(0x9E37_79B9_7F4A_7C15, Ordering::Relaxed);
            let h = ((x ^ (x >> 29)).wrapping_mul(0xBF58_476D_1CE4_E5B9) >> 40) % 64;
            if h < 10 { y.fetch_add(1, Ordering::Relaxed); std::thread::yield_now(); }
            else if h == 10 { y.fetch_add(1, Ordering::Relaxed); std::thread::sleep(std::time::Duration::from_micros(150)); }
        })));
    }
    // the clients
    let seq = Arc::new(AtomicU64::new(1));
    let stop = Arc::new(AtomicBool::new(false));
    let log: Arc<Mutex<Vec<(u64, Ev)>>> = Arc::new(Mutex::new(vec![]));
    let done = Arc::new(AtomicU64::new(0));
    let mut handles = vec![];
    let steps = a.num("steps", 40) as usize;
    for k in 0..writers + readers {
        let db = db.clone(); let seq = seq.clone(); let log = log.clone(); let done = done.clone(); let stop = stop.clone();
        let mut tab = if k < writers { Some(wt[k].clone()) } else { None };
        let ro = ro.clone();
        let mut r = util::rng(seed * 1000 + round, 100 + k as u64);
        let sid = k as u32 + 1;
        let shared_read = a.flag("shared-read");
        let nwriters = writers;
        handles.push(std::thread::Builder::new().stack_size(32 << 20).spawn(move || {
            let push = |e: Ev| { let n = seq.fetch_add(1, Ordering::SeqCst); log.lock().unwrap().push((n, e)); };
            for _ in 0..steps {
                if stop.load(Ordering::SeqCst) { break; }
                if r.random_range(0..6) == 0 { std::thread::yield_now(); }
                if r.random_range(0..25) == 0 { std::thread::sleep(std::time::Duration::from_micros(r.random_range(10..400))); }
                match tab.as_mut() {
                    None => {
                        // now and then a statement that panics inside the executor (division by zero, recorded finding): it must come back as an
                        // error while other clients' statements are queued behind it, and the pool must keep all its workers
                        // --shared-read (witness mode of the finding ReaderWriterLatchDeadlock): readers scan the tables the writers write
                        let q = if shared_read && r.random_range(0..2) == 0 { Stmt::Opaque { sql: format!("SELECT COUNT(*) FROM w{}", r.random_range(1..=nwriters)), ro: true } } else if r.random_range(0..8) == 0 { Stmt::Opaque { sql: format!("SELECT {0}.id / 0 FROM {0}", ro[0].def.name), ro: true } } else { Stmt::Select(rand_select(&mut r, &ro, true)) };
                        let o = exec(&db, &q.sql()); push(Ev::Auto(q, o));
                    }
                    Some(tb) => {
                        let upd = tb.updatable && sid % 2 == 1;   // every other writer updates its table
                        let c = r.random_range(0..100);
                        if c < 22 {
                            // a session on the own table
                            match std::panic::catch_unwind(std::panic::AssertUnwindSafe(|| db.session())) {
                                Ok(Ok(mut s)) => {
                                    push(Ev::Begin(sid, Out::Unit));
                                    let mut ins = vec![];
                                    for _ in 0..r.random_range(1..4) {
                                        let st = if r.random_bool(0.7) { rand_insert(&mut r, tb, 0, 1, false) } else if r.random_bool(0.5) || upd { Stmt::Select(select_all(tb)) } else { rand_delete(&mut r, tb, 0, 1) };   // a session never deletes rows of a table that gets UPDATEs (finding OwnDeleteOfUpdatedRow)
                                        let o = match std::panic::catch_unwind(std::panic::AssertUnwindSafe(|| s.execute(&st.sql()).map(conv).unwrap_or_else(err))) { Ok(o) => o, Err(_) => Out::Panic("session".into()) };
                                        if o.is_ok() && matches!(st, Stmt::Insert { .. }) { ins.push(st.clone()); }
                                        push(Ev::Stmt(sid, st, o));
                                    }
                                    if r.random_bool(0.6) {
                                        let o = s.commit_transaction().map(|_| Out::Unit).unwrap_or_else(err);
                                        if o.is_ok() { for st in &ins { note_insert(tb, st); } }
                                        push(Ev::Commit(sid, o));
                                    } else { let o = s.abort_transaction().map(|_| Out::Unit).unwrap_or_else(err); push(Ev::Rollback(sid, o)); }
                                }
                                Ok(Err(e)) => push(Ev::Begin(sid, err(e))),
                                Err(_) => push(Ev::Begin(sid, Out::Panic("session()".into()))),
                            }
                        } else {
                            let st = if c < 50 { rand_insert(&mut r, tb, 0, 1, false) } else if c < 62 && upd { rand_update(&mut r, tb, 0, 1) } else if c < 72 { rand_delete(&mut r, tb, 0, 1) }
                                     else if c < 88 { Stmt::Select(select_all(tb)) } else { Stmt::Select(rand_select(&mut r, &ro, true)) };
                            let o = exec(&db, &st.sql());
                            if o.is_ok() { note_insert(tb, &st); }
                            push(Ev::Auto(st, o));
                        }
                    }
                }
            }
            done.fetch_add(1, Ordering::SeqCst);
        }).unwrap());
    }
    // watchdog
    let t0 = std::time::Instant::now();
    let limit = std::time::Duration::from_secs(a.num("limit", 60));
    while done.load(Ordering::SeqCst) < (writers + readers) as u64 && t0.elapsed() < limit { std::thread::sleep(std::time::Duration::from_millis(5)); }
    let hung = done.load(Ordering::SeqCst) < (writers + readers) as u64;
    stop.store(true, Ordering::SeqCst);
    axmosdb::verif::set_yield_hook(None);
    stats["perturbed_rounds"] = json!(stats["perturbed_rounds"].as_u64().unwrap_or(0) + perturbed as u64);
    stats["injected_yields"] = json!(stats["injected_yields"].as_u64().unwrap_or(0) + yields.load(Ordering::Relaxed));
    if !hung { for h in handles { let _ = h.join(); } }
    // merge in completion order
    let mut evs: Vec<(u64, Ev)> = std::mem::take(&mut *log.lock().unwrap());
    evs.sort_by_key(|e| e.0);
    let (mut calls, mut errors, mut sessions) = (0u64, 0u64, 0u64);
    let mut distinct: std::collections::HashSet<String> = Default::default();
    for (_, e) in evs {
        calls += 1;
        match e {
            Ev::Auto(st, o) => { if !o.is_ok() { errors += 1; } distinct.insert(st.sql()); emit_auto(t, &st, &o, &mut next_tx); }
            Ev::Begin(s, o) => { sessions += 1; t.ev(json!({"ev": "begin", "s": s, "tx": next_tx, "out": o.json()})); next_tx += 1; }
            Ev::Stmt(s, st, o) => { if !o.is_ok() { errors += 1; } distinct.insert(st.sql()); t.ev(json!({"ev": "stmt", "s": s, "sql": st.sql(), "q": st.json(), "out": out_json(&o)})); }
            Ev::Commit(s, o) => { if !o.is_ok() { errors += 1; } t.ev(json!({"ev": "commit", "s": s, "out": o.json()})); }
            Ev::Rollback(s, o) => { t.ev(json!({"ev": "rollback", "s": s, "out": o.json()})); }
        }
    }
    if hung {
        t.ev(json!({"ev": "stmt", "s": 0, "sql": "-- a client thread did not finish within the watchdog limit", "q": {"k": "hang"}, "out": {"k": "hang"}}));
        stats["hung"] = json!(true);
        return true;
    }
    // quiescent: every table reads back what the acknowledged statements produced
    for tb in wt.iter().chain(ro.iter()) { let st = Stmt::Select(select_all(tb)); let o = exec(&db, &st.sql()); emit_auto(t, &st, &o, &mut next_tx); }
    drop(db);
    stats["calls"] = json!(stats["calls"].as_u64().unwrap_or(0) + calls);
    stats["errors"] = json!(stats["errors"].as_u64().unwrap_or(0) + errors);
    stats["sessions"] = json!(stats["sessions"].as_u64().unwrap_or(0) + sessions);
    stats["clients"] = json!(stats["clients"].as_u64().unwrap_or(0) + (writers + readers) as u64);
    stats["distinct_statements"] = json!(stats["distinct_statements"].as_u64().unwrap_or(0) + distinct.len() as u64);
    false
}

pub fn main(a: &Args) -> i32 {
    std::panic::set_hook(Box::new(|_| {}));
    let seed = a.num("seed", 1);
    let rounds = a.num("rounds", 6);
    let mut t = Trace::create(std::path::Path::new(&a.str("out", "/verif/work/conc.ndjson")));
    let mut stats = json!({"calls": 0, "errors": 0, "sessions": 0, "clients": 0, "hung": false});
    let mut n = 0;
    for round in 0..rounds { n += 1; if one_run(a, seed, round, &mut t, &mut stats) { break; } }
    let _ = std::fs::remove_dir_all(a.str("dir", "/verif/work/conc-db"));
    let ev = t.finish();
    stats["events"] = json!(ev); stats["segments"] = json!(n); stats["stmts"] = stats["calls"].clone(); stats["kind"] = json!("conc");
    println!("{stats}");
    if stats["hung"] == true { std::process::exit(0); }
    0
}
