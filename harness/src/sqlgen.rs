//! SQL abstract syntax shared by the SQL-level drivers: one tree, two renderings -
//! the SQL text handed to the engine (printed with *minimal* parentheses under the documented
//! binding powers, so that parsing is judged through evaluation) and the JSON the TLA+ evaluator reads.
use serde_json::{Value, json};

#[derive(Clone, Debug, PartialEq)]
pub enum V {
    Null,
    Int(i64),
    Text(String),
    Bool(bool),
    /// double carried as twice its value
    F2(i64),
}

impl V {
    pub fn json(&self) -> Value {
        match self {
            V::Null => json!({"t": "n"}),
            V::Int(i) => json!({"t": "i", "v": i}),
            V::Text(s) => text_json(s),
            V::Bool(b) => json!({"t": "b", "v": b}),
            V::F2(i) => json!({"t": "f", "v": i}),
        }
    }
    pub fn sql(&self) -> String {
        match self {
            V::Null => "NULL".into(),
            V::Int(i) => i.to_string(),
            V::Text(s) => format!("'{}'", s.replace('\'', "''")),
            V::Bool(b) => if *b { "TRUE".into() } else { "FALSE".into() },
            V::F2(i) => format!("{:.1}", *i as f64 / 2.0),
        }
    }
}

/// engine output value (eng::val) -> spec value: text becomes a code point sequence
/// TEXT as the specification carries it: its code points - except for a long run of one character (the filler of the
/// long-row workloads), which is carried as that character and its length (`rep`), so that TLC does not hold thousands of
/// integers per value. Such values are only compared for equality and by (character, length).
pub fn text_json(s: &str) -> Value {
    let mut it = s.chars();
    if let Some(c) = it.next() {
        let n = s.chars().count();
        if n >= 256 && it.all(|x| x == c) { return json!({"t": "s", "v": [c as u32], "rep": n}); }
    }
    json!({"t": "s", "v": s.chars().map(|c| c as u32).collect::<Vec<_>>()})
}

pub fn out_val(v: &Value) -> Value {
    if v["t"] == "s" {
        text_json(v["v"].as_str().unwrap_or(""))
    } else {
        v.clone()
    }
}

#[derive(Clone, Debug)]
pub enum E {
    Lit(V),
    /// (qualified sql name, 1-based index in the row of the scope)
    Col(String, usize),
    Not(Box<E>),
    Neg(Box<E>),
    Bin(&'static str, Box<E>, Box<E>),
    IsNull(Box<E>, bool),
    Between(Box<E>, Box<E>, Box<E>, bool),
    In(Box<E>, Vec<E>, bool),
    Like(Box<E>, Box<E>, bool),
}

fn bp(op: &str) -> (u8, u8) {
    match op {
        "or" => (1, 2),
        "and" => (3, 4),
        "eq" | "ne" | "lt" | "le" | "gt" | "ge" => (5, 6),
        "add" | "sub" | "cat" => (7, 8),
        _ => (9, 10), // mul div mod
    }
}

fn sym(op: &str) -> &'static str {
    match op {
        "or" => "OR", "and" => "AND", "eq" => "=", "ne" => "<>", "lt" => "<", "le" => "<=", "gt" => ">", "ge" => ">=",
        "add" => "+", "sub" => "-", "cat" => "||", "mul" => "*", "div" => "/", "mod" => "%", _ => "?",
    }
}

impl E {
    pub fn json(&self) -> Value {
        match self {
            E::Lit(v) => json!({"k": "lit", "v": v.json()}),
            E::Col(_, i) => json!({"k": "col", "i": i}),
            E::Not(e) => json!({"k": "not", "e": e.json()}),
            E::Neg(e) => json!({"k": "neg", "e": e.json()}),
            E::Bin(op, l, r) => json!({"k": op, "l": l.json(), "r": r.json()}),
            E::IsNull(e, neg) => json!({"k": "isnull", "e": e.json(), "neg": neg}),
            E::Between(e, lo, hi, neg) => json!({"k": "between", "e": e.json(), "lo": lo.json(), "hi": hi.json(), "neg": neg}),
            E::In(e, list, neg) => json!({"k": "in", "e": e.json(), "list": list.iter().map(|x| x.json()).collect::<Vec<_>>(), "neg": neg}),
            E::Like(e, p, neg) => json!({"k": "like", "e": e.json(), "p": p.json(), "neg": neg}),
        }
    }

    /// left binding power of the outermost operator (atoms bind tightest)
    fn lbp(&self) -> u8 {
        match self {
            E::Lit(V::Int(i)) if *i < 0 => 8,
            E::Lit(V::F2(i)) if *i < 0 => 8,
            E::Lit(_) | E::Col(..) => 100,
            E::Not(_) => 4,
            E::Neg(_) => 8,
            E::Bin(op, ..) => bp(op).0,
            E::IsNull(..) | E::Between(..) | E::In(..) | E::Like(..) => 5,
        }
    }

    /// SQL with the fewest parentheses that still parses to this tree; `min` = binding power required by the context
    pub fn sql_bp(&self, min: u8) -> String {
        let s = match self {
            E::Lit(v) => v.sql(),
            E::Col(n, _) => n.clone(),
            E::Not(e) => format!("NOT {}", e.sql_bp(4)),
            E::Neg(e) => format!("-{}", e.sql_bp(9)),
            E::Bin(op, l, r) => {
                let (lb, rb) = bp(op);
                // comparison operators do not chain: both sides need something that binds tighter
                let (lmin, rmin) = if lb == 5 { (7, 7) } else { (lb, rb) };
                format!("{} {} {}", l.sql_bp(lmin), sym(op), r.sql_bp(rmin))
            }
            E::IsNull(e, neg) => format!("{} IS {}NULL", e.sql_bp(7), if *neg { "NOT " } else { "" }),
            E::Between(e, lo, hi, neg) => format!("{} {}BETWEEN {} AND {}", e.sql_bp(7), if *neg { "NOT " } else { "" }, lo.sql_bp(7), hi.sql_bp(7)),
            E::In(e, list, neg) => format!("{} {}IN ({})", e.sql_bp(7), if *neg { "NOT " } else { "" }, list.iter().map(|x| x.sql_bp(0)).collect::<Vec<_>>().join(", ")),
            E::Like(e, p, neg) => format!("{} {}LIKE {}", e.sql_bp(7), if *neg { "NOT " } else { "" }, p.sql_bp(7)),
        };
        if self.lbp() < min { format!("({s})") } else { s }
    }
    pub fn sql(&self) -> String {
        self.sql_bp(0)
    }
    /// fully parenthesised rendering (used as the parse-independent control)
    pub fn sql_full(&self) -> String {
        match self {
            E::Lit(v) => v.sql(),
            E::Col(n, _) => n.clone(),
            E::Not(e) => format!("(NOT {})", e.sql_full()),
            E::Neg(e) => format!("(-{})", e.sql_full()),
            E::Bin(op, l, r) => format!("({} {} {})", l.sql_full(), sym(op), r.sql_full()),
            E::IsNull(e, neg) => format!("({} IS {}NULL)", e.sql_full(), if *neg { "NOT " } else { "" }),
            E::Between(e, lo, hi, neg) => format!("({} {}BETWEEN {} AND {})", e.sql_full(), if *neg { "NOT " } else { "" }, lo.sql_full(), hi.sql_full()),
            E::In(e, list, neg) => format!("({} {}IN ({}))", e.sql_full(), if *neg { "NOT " } else { "" }, list.iter().map(|x| x.sql_full()).collect::<Vec<_>>().join(", ")),
            E::Like(e, p, neg) => format!("({} {}LIKE {})", e.sql_full(), if *neg { "NOT " } else { "" }, p.sql_full()),
        }
    }
}

pub fn lit_true() -> E {
    E::Lit(V::Bool(true))
}

#[derive(Clone, Debug, PartialEq)]
pub enum Ty { Int, Text, Bool, Double }
impl Ty {
    pub fn sql(&self) -> &'static str {
        match self { Ty::Int => "INT", Ty::Text => "TEXT", Ty::Bool => "BOOLEAN", Ty::Double => "DOUBLE" }
    }
    pub fn name(&self) -> &'static str {
        match self { Ty::Int => "int", Ty::Text => "text", Ty::Bool => "bool", Ty::Double => "double" }
    }
}

#[derive(Clone, Debug)]
pub struct ColDef { pub name: String, pub ty: Ty, pub nn: bool }

#[derive(Clone, Debug)]
pub struct TableDef { pub name: String, pub cols: Vec<ColDef>, pub uniq: Vec<Vec<usize>> }

impl TableDef {
    pub fn create_sql(&self) -> String {
        let mut parts: Vec<String> = self.cols.iter().map(|c| format!("{} {}{}", c.name, c.ty.sql(), if c.nn { " NOT NULL" } else { "" })).collect();
        for u in &self.uniq {
            parts.push(format!("UNIQUE({})", u.iter().map(|i| self.cols[*i - 1].name.clone()).collect::<Vec<_>>().join(", ")));
        }
        format!("CREATE TABLE {} ({})", self.name, parts.join(", "))
    }
    pub fn create_json(&self) -> Value {
        json!({"k": "create", "tbl": self.name,
               "cols": self.cols.iter().map(|c| json!({"ty": c.ty.name(), "nn": c.nn})).collect::<Vec<_>>(),
               "uniq": self.uniq})
    }
}

#[derive(Clone, Debug)]
pub struct FromItem { pub tbl: String, pub alias: String, pub ncols: usize, pub jk: &'static str, pub on: E }

#[derive(Clone, Debug)]
pub enum Proj { E(E), Grp(usize), Agg(&'static str, E) }

#[derive(Clone, Debug)]
pub struct Select {
    pub from: Vec<FromItem>,
    pub wher: E,
    pub has_where: bool,
    pub agg: bool,
    pub group: Vec<E>,
    pub proj: Vec<Proj>,
    pub distinct: bool,
    pub order: Vec<(usize, bool)>,
    pub limit: i64,
    pub offset: i64,
    /// render expressions fully parenthesised
    pub full_parens: bool,
}

impl Select {
    fn e(&self, e: &E) -> String {
        if self.full_parens { e.sql_full() } else { e.sql() }
    }
    fn proj_sql(&self, p: &Proj) -> String {
        match p {
            Proj::E(e) => self.e(e),
            Proj::Grp(i) => self.e(&self.group[*i - 1]),
            Proj::Agg("count*", _) => "COUNT(*)".into(),
            Proj::Agg(f, e) => format!("{}({})", f.to_uppercase(), self.e(e)),
        }
    }
    pub fn sql(&self) -> String {
        let mut s = String::from("SELECT ");
        if self.distinct { s.push_str("DISTINCT "); }
        s.push_str(&self.proj.iter().map(|p| self.proj_sql(p)).collect::<Vec<_>>().join(", "));
        s.push_str(" FROM ");
        for (i, f) in self.from.iter().enumerate() {
            let name = if f.alias == f.tbl { f.tbl.clone() } else { format!("{} {}", f.tbl, f.alias) };
            if i == 0 { s.push_str(&name); continue; }
            match f.jk {
                "cross" => s.push_str(&format!(" CROSS JOIN {name}")),
                "inner" => s.push_str(&format!(" JOIN {name} ON {}", self.e(&f.on))),
                "left" => s.push_str(&format!(" LEFT JOIN {name} ON {}", self.e(&f.on))),
                "right" => s.push_str(&format!(" RIGHT JOIN {name} ON {}", self.e(&f.on))),
                _ => s.push_str(&format!(" FULL JOIN {name} ON {}", self.e(&f.on))),
            }
        }
        if self.has_where { s.push_str(&format!(" WHERE {}", self.e(&self.wher))); }
        if !self.group.is_empty() {
            s.push_str(&format!(" GROUP BY {}", self.group.iter().map(|g| self.e(g)).collect::<Vec<_>>().join(", ")));
        }
        if !self.order.is_empty() {
            s.push_str(" ORDER BY ");
            s.push_str(&self.order.iter().map(|(i, asc)| format!("{}{}", self.proj_sql(&self.proj[*i - 1]), if *asc { "" } else { " DESC" })).collect::<Vec<_>>().join(", "));
        }
        if self.limit >= 0 { s.push_str(&format!(" LIMIT {}", self.limit)); }
        if self.offset > 0 { s.push_str(&format!(" OFFSET {}", self.offset)); }
        s
    }
    pub fn json(&self) -> Value {
        json!({"k": "select",
               "from": self.from.iter().enumerate().map(|(i, f)| json!({"t": f.tbl, "n": f.ncols, "jk": if i == 0 { "first" } else { f.jk }, "on": f.on.json()})).collect::<Vec<_>>(),
               "where": self.wher.json(), "agg": self.agg,
               "group": self.group.iter().map(|g| g.json()).collect::<Vec<_>>(),
               "proj": self.proj.iter().map(|p| match p {
                    Proj::E(e) => json!({"k": "e", "e": e.json()}),
                    Proj::Grp(i) => json!({"k": "grp", "i": i}),
                    Proj::Agg(f, e) => json!({"k": "agg", "f": f, "e": e.json()}),
               }).collect::<Vec<_>>(),
               "distinct": self.distinct,
               "order": self.order.iter().map(|(i, asc)| json!({"i": i, "asc": asc})).collect::<Vec<_>>(),
               "limit": self.limit, "offset": self.offset})
    }
}

#[derive(Clone, Debug)]
pub enum Stmt {
    Select(Select),
    Insert { tbl: String, cols: Vec<(usize, String)>, rows: Vec<Vec<V>> },
    Update { tbl: String, set: Vec<(usize, String, E)>, wher: E, has_where: bool },
    Delete { tbl: String, wher: E, has_where: bool },
    Create(TableDef),
    Drop(String),
    /// DROP TABLE IF EXISTS: a no-op when the table is not there
    DropIfExists(String),
    Index { name: String, tbl: String, cols: Vec<(usize, String)> },
    /// ALTER TABLE t ALTER COLUMN c SET | DROP NOT NULL (column index is 1-based)
    AlterNn { tbl: String, col: (usize, String), nn: bool },
    /// text the specification has no semantics for; `ro` = cannot change data whatever it does
    Opaque { sql: String, ro: bool },
}

impl Stmt {
    pub fn sql(&self) -> String {
        match self {
            Stmt::Select(s) => s.sql(),
            Stmt::Insert { tbl, cols, rows } => format!("INSERT INTO {} ({}) VALUES {}", tbl,
                cols.iter().map(|c| c.1.clone()).collect::<Vec<_>>().join(", "),
                rows.iter().map(|r| format!("({})", r.iter().map(|v| v.sql()).collect::<Vec<_>>().join(", "))).collect::<Vec<_>>().join(", ")),
            Stmt::Update { tbl, set, wher, has_where } => format!("UPDATE {} SET {}{}", tbl,
                set.iter().map(|(_, n, e)| format!("{} = {}", n, e.sql())).collect::<Vec<_>>().join(", "),
                if *has_where { format!(" WHERE {}", wher.sql()) } else { String::new() }),
            Stmt::Delete { tbl, wher, has_where } => format!("DELETE FROM {}{}", tbl, if *has_where { format!(" WHERE {}", wher.sql()) } else { String::new() }),
            Stmt::Create(t) => t.create_sql(),
            Stmt::Drop(t) => format!("DROP TABLE {t}"),
            Stmt::DropIfExists(t) => format!("DROP TABLE IF EXISTS {t}"),
            Stmt::Index { name, tbl, cols } => format!("CREATE UNIQUE INDEX {} ON {} ({})", name, tbl, cols.iter().map(|c| c.1.clone()).collect::<Vec<_>>().join(", ")),
            Stmt::AlterNn { tbl, col, nn } => format!("ALTER TABLE {} ALTER COLUMN {} {} NOT NULL", tbl, col.1, if *nn { "SET" } else { "DROP" }),
            Stmt::Opaque { sql, .. } => sql.clone(),
        }
    }
    pub fn json(&self) -> Value {
        match self {
            Stmt::Select(s) => s.json(),
            Stmt::Insert { tbl, cols, rows } => json!({"k": "insert", "tbl": tbl, "cols": cols.iter().map(|c| c.0).collect::<Vec<_>>(),
                "rows": rows.iter().map(|r| r.iter().map(|v| v.json()).collect::<Vec<_>>()).collect::<Vec<_>>()}),
            Stmt::Update { tbl, set, wher, .. } => json!({"k": "update", "tbl": tbl,
                "set": set.iter().map(|(c, _, e)| json!({"c": c, "e": e.json()})).collect::<Vec<_>>(), "where": wher.json()}),
            Stmt::Delete { tbl, wher, .. } => json!({"k": "delete", "tbl": tbl, "where": wher.json()}),
            Stmt::Create(t) => t.create_json(),
            Stmt::Drop(t) => json!({"k": "drop", "tbl": t, "ifx": false}),
            Stmt::DropIfExists(t) => json!({"k": "drop", "tbl": t, "ifx": true}),
            Stmt::Index { tbl, cols, .. } => json!({"k": "index", "tbl": tbl, "cols": cols.iter().map(|c| c.0).collect::<Vec<_>>()}),
            Stmt::AlterNn { tbl, col, nn } => json!({"k": "alternn", "tbl": tbl, "c": col.0, "nn": nn}),
            Stmt::Opaque { ro, .. } => json!({"k": "opaque", "ro": ro}),
        }
    }
}
