//! C19 driver: values compare, hash, cast and round-trip consistently.
//! A grid of values of every column type is laid out on the mathematical number line by construction (the rank table below
//! is the oracle: numeric ranks are positions of exact values, text ranks are byte-lexicographic positions).  The driver
//! records, for every pair of the grid, what the engine says (==, partial_cmp, hash equality), for every value whether it
//! survives a cast to its own type, a tuple encode/decode and a trip through SQL, and the order in which ORDER BY, DISTINCT,
//! GROUP BY, a unique index and a raw B+tree return the values of one column.  ValuesTrace.tla checks the laws.
use crate::eng::{self, Eng, Out};
use crate::util::{Args, Trace};
use axmosdb::types::bool::Bool;
use axmosdb::types::{Blob, DataType, DataTypeKind, Float32, Float64, Int32, Int64, UInt32, UInt64};
use axmosdb::verif::tuple::Tup;
use serde_json::{Value, json};
use std::hash::{Hash, Hasher};

#[derive(Clone)]
struct V { d: DataType, ty: &'static str, cls: &'static str, rank: i64, frank: i64, nan: bool, negzero: bool, sql: Option<String> }

/// the number line: (exact value as text, typed representations).  Order of the table = mathematical order.
fn numeric_grid() -> Vec<V> {
    let mut out = vec![];
    let mut rank = 0i64;
    // (f64 rounding class: values that round to the same double share `frank`)
    let mut frank = 0i64;
    let mut line = |reps: Vec<(DataType, &'static str, Option<String>)>, same_double_as_previous: bool, out: &mut Vec<V>| {
        rank += 1;
        if !same_double_as_previous { frank += 1; }
        for (d, ty, sql) in reps {
            let negzero = match &d { DataType::Double(f) => f.0 == 0.0 && f.0.is_sign_negative(), DataType::Float(f) => f.0 == 0.0 && f.0.is_sign_negative(), _ => false };
            out.push(V { d, ty, cls: "num", rank, frank, nan: false, negzero, sql });
        }
    };
    let i = |v: i32| (DataType::Int(Int32(v)), "int", Some(v.to_string()));
    let l = |v: i64| (DataType::BigInt(Int64(v)), "bigint", Some(v.to_string()));
    let u = |v: u32| (DataType::UInt(UInt32(v)), "uint", Some(v.to_string()));
    let q = |v: u64| (DataType::BigUInt(UInt64(v)), "biguint", Some(v.to_string()));
    let f = |v: f32| (DataType::Float(Float32(v)), "float", None);
    let d = |v: f64, s: Option<&str>| (DataType::Double(Float64(v)), "double", s.map(|x| x.to_string()));
    line(vec![d(f64::NEG_INFINITY, None), f(f32::NEG_INFINITY)], false, &mut out);
    line(vec![d(f64::MIN, None)], false, &mut out);
    line(vec![l(i64::MIN), d(-9223372036854775808.0, None)], false, &mut out);
    line(vec![l(i64::MIN + 1)], true, &mut out);                       // rounds to -2^63 as a double
    line(vec![l(-9007199254740993)], false, &mut out);                 // -(2^53+1) rounds to -2^53
    line(vec![l(-9007199254740992), d(-9007199254740992.0, None)], true, &mut out);
    line(vec![l(i32::MIN as i64), i(i32::MIN), d(i32::MIN as f64, None)], false, &mut out);
    line(vec![i(-2), l(-2), d(-2.0, Some("-2.0"))], false, &mut out);
    line(vec![d(-1.5, Some("-1.5")), f(-1.5)], false, &mut out);
    line(vec![i(-1), l(-1), d(-1.0, Some("-1.0")), f(-1.0)], false, &mut out);
    line(vec![d(-0.5, Some("-0.5"))], false, &mut out);
    line(vec![i(0), l(0), u(0), q(0), d(0.0, Some("0.0")), d(-0.0, Some("-0.0")), f(0.0), f(-0.0)], false, &mut out);
    line(vec![f(f32::MIN_POSITIVE), d(f32::MIN_POSITIVE as f64, None)], false, &mut out);
    line(vec![d(0.5, Some("0.5")), f(0.5)], false, &mut out);
    line(vec![i(1), l(1), u(1), q(1), d(1.0, Some("1.0")), f(1.0)], false, &mut out);
    line(vec![d(1.5, Some("1.5")), f(1.5)], false, &mut out);
    line(vec![i(2), l(2), u(2), q(2), d(2.0, Some("2.0"))], false, &mut out);
    line(vec![i(16777216), l(16777216), f(16777216.0), d(16777216.0, None)], false, &mut out);       // 2^24
    line(vec![i(16777217), l(16777217), d(16777217.0, None)], false, &mut out);                          // 2^24+1: not a float32
    line(vec![i(i32::MAX), l(i32::MAX as i64), u(i32::MAX as u32), d(i32::MAX as f64, None)], false, &mut out);
    line(vec![u(u32::MAX), l(u32::MAX as i64), q(u32::MAX as u64), d(u32::MAX as f64, None)], false, &mut out);
    line(vec![l(9007199254740992), q(9007199254740992), d(9007199254740992.0, None)], false, &mut out);   // 2^53
    line(vec![l(9007199254740993), q(9007199254740993)], true, &mut out);                                  // 2^53+1 rounds to 2^53
    line(vec![l(i64::MAX - 1), q(i64::MAX as u64 - 1)], false, &mut out);                                 // rounds to 2^63
    line(vec![l(i64::MAX), q(i64::MAX as u64)], true, &mut out);
    line(vec![q(1 << 63), d(9223372036854775808.0, None)], true, &mut out);
    line(vec![q(u64::MAX - 1)], false, &mut out);                                                         // rounds to 2^64
    line(vec![q(u64::MAX)], true, &mut out);
    line(vec![d(18446744073709551616.0, None)], true, &mut out);
    line(vec![d(f64::MAX, None)], false, &mut out);
    line(vec![d(f64::INFINITY, None), f(f32::INFINITY)], false, &mut out);
    // NaN: a value of its own, above everything (any fixed place would do for a total order)
    rank += 1; frank += 1;
    out.push(V { d: DataType::Double(Float64(f64::NAN)), ty: "double", cls: "num", rank, frank, nan: true, negzero: false, sql: None });
    out.push(V { d: DataType::Float(Float32(f32::NAN)), ty: "float", cls: "num", rank, frank, nan: true, negzero: false, sql: None });
    out
}

fn text_grid() -> Vec<V> {
    let mut ts: Vec<Vec<u8>> = vec![b"".to_vec(), b"a".to_vec(), b"ab".to_vec(), b"abc".to_vec(), b"abcdefgh".to_vec(), b"abcdefghi".to_vec(), b"abcdefgi".to_vec(), b"b".to_vec(), b"B".to_vec(), b" ".to_vec(),
        "é".as_bytes().to_vec(), "z".repeat(9).into_bytes(), "z".repeat(300).into_bytes(), { let mut v = "z".repeat(299).into_bytes(); v.push(b'y'); v }, "z".repeat(5000).into_bytes()];
    // texts longer than one 8-byte comparison chunk: shared leading chunks, different numbers of whole chunks, difference in the tail
    for s in ["customer_name_9", "customer_name_10", "abcdefghijklmno", "abcdefghijklmnop", "abcdefghijklmnoz", "abcdefghijklm", "abcdefghijklmz", "abcdefghijklmnopqrstu", "abcdefghijklmnopqrstuvwxyz"] { ts.push(s.as_bytes().to_vec()); }
    let mut x: u64 = 0x9E3779B97F4A7C15;
    for _ in 0..40 { x ^= x << 13; x ^= x >> 7; x ^= x << 17; let n = 9 + (x % 28) as usize; let mut v = b"aaaaaaaa".to_vec(); let mut y = x; for _ in 8..n { v.push(if y & 1 == 0 { b'a' } else { b'b' }); y >>= 1; } ts.push(v); }
    ts.sort();
    ts.dedup();
    ts.iter().enumerate().map(|(i, b)| { let s = String::from_utf8(b.clone()).unwrap(); V { d: DataType::Blob(Blob::from(s.clone())), ty: "text", cls: "text", rank: i as i64 + 1, frank: i as i64 + 1, nan: false, negzero: false, sql: Some(format!("'{s}'")) } }).collect()
}

/// exact order of numbers of any column type (no rounding): integers as i128, doubles compared through their integral and fractional parts
fn num_cmp(a: &DataType, b: &DataType) -> std::cmp::Ordering {
    use std::cmp::Ordering::*;
    #[derive(Clone, Copy)]
    enum N { I(i128), F(f64) }
    let n = |d: &DataType| match d { DataType::Int(v) => N::I(v.0 as i128), DataType::BigInt(v) => N::I(v.0 as i128), DataType::UInt(v) => N::I(v.0 as i128), DataType::BigUInt(v) => N::I(v.0 as i128),
        DataType::Float(v) => N::F(v.0 as f64), DataType::Double(v) => N::F(v.0), _ => N::I(0) };
    let if_cmp = |i: i128, f: f64| -> std::cmp::Ordering {
        if f == f64::INFINITY { return Less; } if f == f64::NEG_INFINITY { return Greater; }
        let t = f.trunc();
        if t >= 1.0e38 { return Less; } if t <= -1.0e38 { return Greater; }
        let ti = t as i128;   // exact: |t| < 1e38 and t is integral
        match i.cmp(&ti) { Equal => { let fr = f - t; if fr > 0.0 { Less } else if fr < 0.0 { Greater } else { Equal } } o => o }
    };
    match (n(a), n(b)) {
        (N::I(x), N::I(y)) => x.cmp(&y),
        (N::F(x), N::F(y)) => x.partial_cmp(&y).unwrap_or(Equal),
        (N::I(x), N::F(y)) => if_cmp(x, y),
        (N::F(x), N::I(y)) => if_cmp(y, x).reverse(),
    }
}
fn to_double(d: &DataType) -> f64 {
    match d { DataType::Int(v) => v.0 as f64, DataType::BigInt(v) => v.0 as f64, DataType::UInt(v) => v.0 as f64, DataType::BigUInt(v) => v.0 as f64, DataType::Float(v) => v.0 as f64, DataType::Double(v) => v.0, _ => 0.0 }
}

/// seeded values away from the boundary grid (thorough tier)
fn extra_values(seed: u64, n: usize) -> Vec<V> {
    use rand::Rng;
    let mut r = crate::util::rng(seed, 19);
    let mut out = vec![];
    let mk = |d: DataType, ty: &'static str, cls: &'static str, sql: Option<String>| V { d, ty, cls, rank: 0, frank: 0, nan: false, negzero: false, sql };
    for _ in 0..n {
        match r.random_range(0..8) {
            0 => { let v = r.random::<i32>(); out.push(mk(DataType::Int(Int32(v)), "int", "num", Some(v.to_string()))); }
            1 => { let v = r.random::<i64>() >> r.random_range(0..40); out.push(mk(DataType::BigInt(Int64(v)), "bigint", "num", if v.unsigned_abs() < (1 << 53) { Some(v.to_string()) } else { None })); /* larger literals are rounded by the parser to values outside the grid */ }
            2 => { let v = r.random::<u64>() >> r.random_range(0..40); out.push(mk(DataType::BigUInt(UInt64(v)), "biguint", "num", if v < (1 << 53) { Some(v.to_string()) } else { None })); }
            3 => { let v = (r.random::<i64>() >> r.random_range(0..50)) as f64 / [1.0, 2.0, 4.0, 1024.0][r.random_range(0..4)]; out.push(mk(DataType::Double(Float64(v)), "double", "num", None)); }
            4 => { let v = (r.random::<i32>() >> r.random_range(0..20)) as f32 / [1.0f32, 2.0, 8.0][r.random_range(0..3)]; out.push(mk(DataType::Float(Float32(v)), "float", "num", None)); }
            5 => { let v = r.random::<u32>(); out.push(mk(DataType::UInt(UInt32(v)), "uint", "num", Some(v.to_string()))); }
            _ => { let n = r.random_range(0..40); let s: String = (0..n).map(|_| ['a', 'b', 'c', 'z', ' ', 'é'][r.random_range(0..6)]).collect(); out.push(mk(DataType::Blob(Blob::from(s.clone())), "text", "text", Some(format!("'{s}'")))); }
        }
    }
    out
}

/// ranks by exact comparison over the whole set (the hand-ordered table above only supplies the values)
fn assign_ranks(g: &mut Vec<V>) {
    for cls in ["num", "text"] {
        let idx: Vec<usize> = (0..g.len()).filter(|i| g[*i].cls == cls && !g[*i].nan).collect();
        let cmp = |a: &usize, b: &usize| if cls == "num" { num_cmp(&g[*a].d, &g[*b].d) } else { match (&g[*a].d, &g[*b].d) { (DataType::Blob(x), DataType::Blob(y)) => x.to_string_lossy_unchecked().as_bytes().cmp(y.to_string_lossy_unchecked().as_bytes()), _ => std::cmp::Ordering::Equal } };
        let mut order = idx.clone();
        order.sort_by(|a, b| cmp(a, b));
        let mut rank = 0i64;
        let mut ranks = vec![0i64; g.len()];
        for (k, i) in order.iter().enumerate() { if k == 0 || cmp(&order[k - 1], i) != std::cmp::Ordering::Equal { rank += 1; } ranks[*i] = rank; }
        // rank after rounding to a double
        let mut franks = ranks.clone();
        if cls == "num" {
            let mut o2 = idx.clone();
            o2.sort_by(|a, b| to_double(&g[*a].d).partial_cmp(&to_double(&g[*b].d)).unwrap());
            let mut fr = 0i64;
            for (k, i) in o2.iter().enumerate() { if k == 0 || to_double(&g[o2[k - 1]].d) != to_double(&g[*i].d) { fr += 1; } franks[*i] = fr; }
        }
        let top = rank + 1;
        let ftop = franks.iter().copied().max().unwrap_or(0) + 1;
        for i in 0..g.len() { if g[i].cls == cls { if g[i].nan { g[i].rank = top; g[i].frank = ftop; } else { g[i].rank = ranks[i]; g[i].frank = franks[i]; } } }
    }
}

fn grid() -> Vec<V> {
    let mut g = numeric_grid();
    g.extend(text_grid());
    g.push(V { d: DataType::Bool(Bool(false)), ty: "bool", cls: "bool", rank: 1, frank: 1, nan: false, negzero: false, sql: Some("FALSE".into()) });
    g.push(V { d: DataType::Bool(Bool(true)), ty: "bool", cls: "bool", rank: 2, frank: 2, nan: false, negzero: false, sql: Some("TRUE".into()) });
    g.push(V { d: DataType::Null, ty: "null", cls: "null", rank: 0, frank: 0, nan: false, negzero: false, sql: Some("NULL".into()) });
    g
}

fn h(d: &DataType) -> u64 { let mut s = std::collections::hash_map::DefaultHasher::new(); d.hash(&mut s); s.finish() }

fn bits_same(a: &DataType, b: &DataType) -> bool {
    match (a, b) {
        (DataType::Null, DataType::Null) => true,
        (DataType::Bool(x), DataType::Bool(y)) => x.0 == y.0,
        (DataType::Int(x), DataType::Int(y)) => x.0 == y.0,
        (DataType::BigInt(x), DataType::BigInt(y)) => x.0 == y.0,
        (DataType::UInt(x), DataType::UInt(y)) => x.0 == y.0,
        (DataType::BigUInt(x), DataType::BigUInt(y)) => x.0 == y.0,
        (DataType::Float(x), DataType::Float(y)) => x.0.to_bits() == y.0.to_bits(),
        (DataType::Double(x), DataType::Double(y)) => x.0.to_bits() == y.0.to_bits(),
        (DataType::Blob(x), DataType::Blob(y)) => x.as_ref() == y.as_ref(),
        _ => false,
    }
}

fn kind_of(ty: &str) -> Option<(DataTypeKind, &'static str)> {
    Some(match ty { "int" => (DataTypeKind::Int, "INT"), "bigint" => (DataTypeKind::BigInt, "BIGINT"), "uint" => (DataTypeKind::UInt, "UINT"), "biguint" => (DataTypeKind::BigUInt, "BIGUINT"),
        "float" => (DataTypeKind::Float, "FLOAT"), "double" => (DataTypeKind::Double, "DOUBLE"), "text" => (DataTypeKind::Blob, "TEXT"), "bool" => (DataTypeKind::Bool, "BOOLEAN"), _ => return None })
}

pub fn main(a: &Args) -> i32 {
    std::panic::set_hook(Box::new(|_| {}));
    let mut t = Trace::create(std::path::Path::new(&a.str("out", "/verif/work/values.ndjson")));
    t.lazy = true;
    let mut g = grid();
    let extra = a.num("extra", 0) as usize;
    if extra > 0 { let nulls = g.pop().unwrap(); g.extend(extra_values(a.num("seed", 1), extra)); g.push(nulls); }
    // cross-check of the hand-ordered table: ranks are recomputed by exact comparison over everything
    let hand: Vec<(i64, i64)> = g.iter().map(|v| (v.rank, v.frank)).collect();
    assign_ranks(&mut g);
    for (i, v) in g.iter().enumerate() { if extra == 0 && v.cls == "num" && (v.rank, v.frank) != hand[i] { eprintln!("rank table disagrees with exact comparison at value {} ({:?}): hand {:?} exact {:?}", i + 1, v.d, hand[i], (v.rank, v.frank)); return 2; } }
    for (i, v) in g.iter().enumerate() {
        t.ev(json!({"ev": "val", "id": i + 1, "ty": v.ty, "cls": v.cls, "rank": v.rank, "frank": v.frank, "nan": v.nan, "negzero": v.negzero}));
    }
    // every pair
    let mut pairs = 0u64;
    for (i, x) in g.iter().enumerate() {
        for (j, y) in g.iter().enumerate() {
            let r = std::panic::catch_unwind(|| { let eq = x.d == y.d; let c = match x.d.partial_cmp(&y.d) { Some(std::cmp::Ordering::Less) => "lt", Some(std::cmp::Ordering::Equal) => "eq", Some(std::cmp::Ordering::Greater) => "gt", None => "none" }; (eq, c, h(&x.d) == h(&y.d)) });
            let (eq, c, heq) = r.unwrap_or((false, "panic", false));
            t.ev(json!({"ev": "pair", "a": i + 1, "b": j + 1, "eq": eq, "cmp": c, "heq": heq}));
            pairs += 1;
        }
    }
    // round trips: cast to the own type, tuple encode / decode
    let mut rounds = 0u64;
    for (i, v) in g.iter().enumerate() {
        let Some((kind, _)) = kind_of(v.ty) else { continue };
        let cast = v.d.try_cast(kind).map(|c| bits_same(&c, &v.d)).unwrap_or(false);
        let tup = std::panic::catch_unwind(|| {
            Tup::build(&[DataTypeKind::BigUInt, kind], 1, vec![DataType::BigUInt(UInt64(7)), v.d.clone()], 1).ok().and_then(|mut t| { t.reload().ok()?; t.decode_last().ok() }).map(|row| row.len() == 2 && bits_same(&row[1], &v.d)).unwrap_or(false)
        }).unwrap_or(false);
        t.ev(json!({"ev": "round", "a": i + 1, "cast": cast, "stored": tup}));
        rounds += 1;
    }
    // observers through SQL: one single-column table per type
    let dir = std::path::PathBuf::from(a.str("dir", "/verif/work/values-db"));
    let _ = std::fs::remove_dir_all(&dir);
    std::fs::create_dir_all(&dir).unwrap();
    let mut e = Eng::new();
    let _ = e.create(&dir.join("db.axm"), eng::default_cfg());
    let mut observers = 0u64;
    for ty in ["int", "bigint", "uint", "biguint", "double", "text", "bool"] {
        let (_, sqlty) = kind_of(ty).unwrap();
        let members: Vec<usize> = g.iter().enumerate().filter(|(_, v)| v.ty == ty && v.sql.is_some()).map(|(i, _)| i).collect();
        let tn = format!("v_{ty}");
        let _ = e.exec(0, &format!("CREATE TABLE {tn} (id INT, v {sqlty})"));
        let mut stored: Vec<usize> = vec![];
        for (n, i) in members.iter().enumerate() {
            // twice each, so that DISTINCT / GROUP BY have something to merge; plus one NULL
            for rep in 0..2 {
                let o = e.exec(0, &format!("INSERT INTO {tn} (id, v) VALUES ({}, {})", n * 2 + rep + 1, g[*i].sql.as_ref().unwrap()));
                if rep == 0 { if o.is_ok() { stored.push(*i); } else { t.ev(json!({"ev": "sqlstore", "a": i + 1, "ok": false, "text": o.json()})); } }
            }
        }
        let _ = e.exec(0, &format!("INSERT INTO {tn} (id, v) VALUES (9999, NULL)"));
        // what comes back must be bit-identical to what was written (as a multiset)
        let id_of = |d: &Value, members: &[usize]| -> i64 {
            // the engine thread hands values back as trace values; compare through the same rendering of the grid value
            for i in members { if eng::val(&g[*i].d) == *d { return *i as i64 + 1; } }
            if d["t"] == "n" { return 0; }
            -1
        };
        let mut q = |e: &mut Eng, sql: &str| -> Option<Vec<Vec<Value>>> { match e.exec(0, sql) { Out::Rows(r) => Some(r), _ => None } };
        if let Some(rows) = q(&mut e, &format!("SELECT v FROM {tn}")) {
            let ids: Vec<i64> = rows.iter().map(|r| id_of(&r[0], &members)).collect();
            t.ev(json!({"ev": "sqlround", "ty": ty, "written": stored.iter().map(|i| i + 1).collect::<Vec<_>>(), "read": ids}));
        }
        if let Some(rows) = q(&mut e, &format!("SELECT v FROM {tn} ORDER BY v")) {
            t.ev(json!({"ev": "sorted", "by": "orderby", "ty": ty, "ids": rows.iter().map(|r| id_of(&r[0], &members)).collect::<Vec<_>>()})); observers += 1;
        }
        if let Some(rows) = q(&mut e, &format!("SELECT DISTINCT v FROM {tn}")) {
            t.ev(json!({"ev": "classes", "by": "distinct", "ty": ty, "ids": rows.iter().map(|r| id_of(&r[0], &members)).collect::<Vec<_>>()})); observers += 1;
        }
        if let Some(rows) = q(&mut e, &format!("SELECT v, COUNT(*) FROM {tn} GROUP BY v")) {
            t.ev(json!({"ev": "classes", "by": "group", "ty": ty, "ids": rows.iter().map(|r| id_of(&r[0], &members)).collect::<Vec<_>>()})); observers += 1;
        }
    }
    let _ = e.close();
    let _ = std::fs::remove_dir_all(&dir);
    let n = t.finish();
    println!("{}", json!({"events": n, "values": g.len(), "pairs": pairs, "rounds": rounds, "observers": observers}));
    0
}
