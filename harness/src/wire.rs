//! C20 driver: the wire protocol.
//!   wire replay --in cases.ndjson    TLC-enumerated byte strings with the specification's verdicts, fed to the real decoders
//!   wire trace --seed S --out F      seeded large messages round-tripped through encode / frame / decode, for WireTrace.tla
use crate::util::{self, Args, Trace};
use axmosdb::tcp::{self, Request, Response, TcpError};
use rand::Rng;
use serde_json::{Value, json};

fn class(e: &TcpError) -> &'static str {
    match e {
        TcpError::VersionMismatch { .. } => "version",
        TcpError::UnknownCommand(_) | TcpError::UnknownStatus(_) => "unknown",
        TcpError::InvalidMessage(_) => "invalid",
        TcpError::MessageTooLarge(_) => "too_large",
        TcpError::Io(_) | TcpError::ConnectionClosed => "eof",
    }
}

fn bytes_of(v: &Value) -> Vec<u8> {
    v.as_array().map(|a| a.iter().map(|x| x.as_u64().unwrap() as u8).collect()).unwrap_or_default()
}
fn lossy(v: &Value) -> String {
    String::from_utf8_lossy(&bytes_of(v)).into_owned()
}

fn req_matches(r: &Request, m: &Value) -> bool {
    let tag = m["tag"].as_u64().unwrap();
    match r {
        Request::Create(s) => tag == 1 && *s == lossy(&m["s"]),
        Request::Open(s) => tag == 2 && *s == lossy(&m["s"]),
        Request::Sql(s) => tag == 3 && *s == lossy(&m["s"]),
        Request::Explain(s) => tag == 4 && *s == lossy(&m["s"]),
        Request::Analyze { sample_rate, max_sample_rows } => {
            let raw = bytes_of(&m["raw"]);
            tag == 5 && raw.len() == 16 && sample_rate.to_le_bytes() == raw[0..8] && (*max_sample_rows as u64).to_le_bytes() == raw[8..16]
        }
        Request::Close => tag == 6, Request::Ping => tag == 7, Request::Vacuum => tag == 9, Request::Begin => tag == 10,
        Request::Commit => tag == 11, Request::Rollback => tag == 12, Request::Shutdown => tag == 255,
    }
}

fn resp_matches(r: &Response, m: &Value) -> bool {
    let tag = m["tag"].as_u64().unwrap();
    match r {
        Response::Ok(s) => tag == 0 && *s == lossy(&m["s"]),
        Response::Error(s) => tag == 1 && *s == lossy(&m["s"]),
        Response::Ddl(s) => tag == 4 && *s == lossy(&m["s"]),
        Response::Explain(s) => tag == 5 && *s == lossy(&m["s"]),
        Response::Rows { columns, data } => {
            if tag != 2 { return false; }
            let cols: Vec<String> = m["cols"].as_array().map(|a| a.iter().map(lossy).collect()).unwrap_or_default();
            if *columns != cols { return false; }
            if let Some(n) = m.get("nrows").and_then(|n| n.as_u64()) {
                return data.len() as u64 == n && data.iter().all(|r| r.is_empty());
            }
            let rows: Vec<Vec<String>> = m["rows"].as_array().map(|a| a.iter().map(|r| r.as_array().map(|c| c.iter().map(lossy).collect()).unwrap_or_default()).collect()).unwrap_or_default();
            *data == rows
        }
        Response::RowsAffected(n) => tag == 3 && n.to_le_bytes().to_vec() == bytes_of(&m["raw"]),
        Response::VacuumComplete { tables_vacuumed, bytes_freed, transactions_cleaned } => {
            let raw = bytes_of(&m["raw"]);
            tag == 9 && raw.len() == 24 && (*tables_vacuumed as u64).to_le_bytes() == raw[0..8] && (*bytes_freed as u64).to_le_bytes() == raw[8..16] && (*transactions_cleaned as u64).to_le_bytes() == raw[16..24]
        }
        Response::Pong => tag == 6, Response::Goodbye => tag == 7, Response::ShuttingDown => tag == 8,
        Response::SessionStarted => tag == 10, Response::SessionEnd => tag == 11,
    }
}

fn replay(a: &Args) -> i32 {
    std::panic::set_hook(Box::new(|_| {}));
    let text = std::fs::read_to_string(a.str("in", "")).expect("cases");
    let mut bad: Vec<Value> = vec![];
    let (mut n, mut oks, mut frames) = (0usize, 0usize, 0usize);
    let at = a.str("at", "");
    for (k, line) in text.lines().enumerate() {
        if !at.is_empty() { let _ = std::fs::write(&at, k.to_string()); }
        let c: Value = serde_json::from_str(line).expect("json");
        let bytes = bytes_of(&c["bytes"]);
        let v = &c["verdict"];
        let want_ok = v["ok"].as_bool().unwrap();
        n += 1;
        let got: Result<Result<bool, String>, _> = std::panic::catch_unwind(|| {
            if c["kind"] == "req" {
                match Request::from_bytes(&bytes) { Ok(r) => Ok(want_ok && req_matches(&r, &v["m"])), Err(e) => Err(class(&e).to_string()) }
            } else {
                match Response::from_bytes(&bytes) { Ok(r) => Ok(want_ok && resp_matches(&r, &v["m"])), Err(e) => Err(class(&e).to_string()) }
            }
        });
        let what = match got {
            Err(_) => Some("decoder panicked".to_string()),
            Ok(Ok(true)) => { oks += 1; None }
            Ok(Ok(false)) => Some(if want_ok { "decoded to a different message".to_string() } else { "accepted bytes the specification rejects".to_string() }),
            Ok(Err(cl)) => if want_ok { Some(format!("rejected ({cl}) bytes the specification decodes")) } else if v["class"] == cl.as_str() { None } else { Some(format!("error class {cl}, specification says {}", v["class"])) },
        };
        if let Some(w) = what { bad.push(json!({"case": c, "what": w})); }
        // framing: the bytes behind their length prefix come back exactly; a truncated frame does not
        let mut stream = (bytes.len() as u32).to_le_bytes().to_vec();
        stream.extend_from_slice(&bytes);
        let r1 = tcp::read_message(&mut &stream[..]);
        let r2 = tcp::read_message(&mut &stream[..stream.len().saturating_sub(1).max(if bytes.is_empty() { 3 } else { 0 })]);
        frames += 1;
        if !matches!(&r1, Ok(b) if *b == bytes) { bad.push(json!({"case": c, "what": "frame reader did not return the framed bytes"})); }
        if r2.is_ok() { bad.push(json!({"case": c, "what": "frame reader accepted a truncated frame"})); }
    }
    let out = a.str("out", "");
    if !out.is_empty() { std::fs::write(&out, serde_json::to_string_pretty(&json!({"first": bad.iter().take(5).collect::<Vec<_>>()})).unwrap()).unwrap(); }
    println!("{}", json!({"cases": n, "decoded_ok": oks, "frames": frames, "divergences": bad.len()}));
    0
}

fn rand_string(r: &mut impl Rng, max: usize) -> String {
    let n = if max == 0 { 0 } else { r.random_range(0..=max) };
    let alphabet: Vec<char> = "abcXYZ 019'\"\\%_éß漢🙂\n\0".chars().collect();
    (0..n).map(|_| alphabet[r.random_range(0..alphabet.len())]).collect()
}

/// seeded large messages: shape (lengths, counts) is what WireTrace.tla reasons about; payload equality is checked here
fn trace(a: &Args) -> i32 {
    let seed = a.num("seed", 1);
    let n = a.num("messages", 300);
    let mut t = Trace::create(std::path::Path::new(&a.str("out", "/verif/work/wire-trace.ndjson")));
    let mut r = util::rng(seed, 3);
    let mut big = 0;
    for i in 0..n {
        let k = r.random_range(0..12);
        if k < 4 {
            let s = match r.random_range(0..20) { 0 => "x".repeat(tcp::MAX_MESSAGE_SIZE - 6), 1 => "x".repeat(tcp::MAX_MESSAGE_SIZE - 5), 2 => "y".repeat(tcp::MAX_MESSAGE_SIZE - 7), _ => rand_string(&mut r, 200) };
            let req = match k { 0 => Request::Sql(s.clone()), 1 => Request::Create(s.clone()), 2 => Request::Open(s.clone()), _ => Request::Explain(s.clone()) };
            let enc = req.to_bytes();
            let same = Request::from_bytes(&enc).map(|d| d == req).unwrap_or(false);
            let mut wire = vec![];
            let wrote = tcp::write_message(&mut wire, &enc).is_ok();
            let read = if wrote { tcp::read_message(&mut &wire[..]).map(|b| b == enc).unwrap_or(false) } else { false };
            if enc.len() > 1_000_000 { big += 1; }
            t.ev(json!({"ev": "msg", "kind": "req_str", "slen": s.len(), "enc_len": enc.len(), "same": same, "wrote": wrote, "read": read}));
        } else if k < 6 {
            let req = if k == 4 { Request::Analyze { sample_rate: r.random::<f64>() * 10.0 - 5.0, max_sample_rows: r.random::<u32>() as usize } } else { [Request::Ping, Request::Close, Request::Begin, Request::Commit, Request::Rollback, Request::Vacuum, Request::Shutdown][i as usize % 7].clone() };
            let enc = req.to_bytes();
            let same = Request::from_bytes(&enc).map(|d| d == req).unwrap_or(false);
            t.ev(json!({"ev": "msg", "kind": if k == 4 { "req_analyze" } else { "req_unit" }, "slen": 0, "enc_len": enc.len(), "same": same, "wrote": true, "read": true}));
        } else {
            let nc = *[0usize, 1, 1, 2, 3, 7, 40].get(r.random_range(0..7)).unwrap();
            let nr = if nc == 0 { r.random_range(0..4) } else { *[0usize, 1, 2, 5, 50, 2000].get(r.random_range(0..6)).unwrap() };
            let cell = if nr >= 2000 { 6 } else { 40 };
            let columns: Vec<String> = (0..nc).map(|_| rand_string(&mut r, 12)).collect();
            let data: Vec<Vec<String>> = (0..nr).map(|_| (0..nc).map(|_| rand_string(&mut r, cell)).collect()).collect();
            let cells: usize = data.iter().map(|row| row.iter().map(|c| 4 + c.len()).sum::<usize>()).sum();
            let cols: usize = columns.iter().map(|c| 4 + c.len()).sum();
            let resp = Response::Rows { columns: columns.clone(), data: data.clone() };
            let enc = resp.to_bytes();
            let same = match Response::from_bytes(&enc) { Ok(Response::Rows { columns: c2, data: d2 }) => c2 == columns && d2 == data, _ => false };
            let mut wire = vec![];
            let wrote = tcp::write_message(&mut wire, &enc).is_ok();
            let read = if wrote { tcp::read_message(&mut &wire[..]).map(|b| b == enc).unwrap_or(false) } else { false };
            t.ev(json!({"ev": "msg", "kind": "resp_rows", "ncols": nc, "nrows": nr, "col_bytes": cols, "cell_bytes": cells, "enc_len": enc.len(), "same": same, "wrote": wrote, "read": read}));
        }
    }
    let n = t.finish();
    println!("{}", json!({"events": n, "big": big}));
    0
}

/// End to end: the real server process, spoken to over TCP with the real codec.
///  - a seeded SQL conversation whose Rows answers must equal what an in-process database renders for the same statements
///    (rows with NULLs, empty strings, non-ASCII text, zero rows, many rows);
///  - every byte string the specification rejects, framed and sent on a fresh connection: the connection must end or answer
///    within the limit and the server must stay alive (a later Ping gets its Pong).
fn server(a: &Args) -> i32 {
    use std::io::{Read, Write};
    use std::net::TcpStream;
    use std::time::Duration;
    let bin = a.str("server-bin", "");
    let dir = std::path::PathBuf::from(a.str("dir", "/verif/work/wire-srv"));
    let _ = std::fs::remove_dir_all(&dir);
    std::fs::create_dir_all(&dir).unwrap();
    let seed = a.num("seed", 1);
    let port = 20000 + (std::process::id() % 20000) as u16;
    let mut child = match std::process::Command::new(&bin).args(["-p", &port.to_string(), "-f", dir.join("srv.axm").to_str().unwrap()]).stdout(std::process::Stdio::null()).stderr(std::process::Stdio::null()).spawn() {
        Ok(c) => c, Err(e) => { eprintln!("cannot start server {bin}: {e}"); return 2; }
    };
    let connect = || -> Option<TcpStream> { for _ in 0..100 { if let Ok(s) = TcpStream::connect(("127.0.0.1", port)) { s.set_read_timeout(Some(Duration::from_secs(10))).ok(); s.set_write_timeout(Some(Duration::from_secs(10))).ok(); return Some(s); } std::thread::sleep(Duration::from_millis(50)); } None };
    let mut t = Trace::create(std::path::Path::new(&a.str("out", "/verif/work/wire-server.ndjson")));
    let mut problems: Vec<String> = vec![];
    let ask = |s: &mut TcpStream, r: &Request| -> Result<Response, String> { tcp::send_request(s, r).map_err(|e| format!("send: {e}"))?; tcp::recv_response(s).map_err(|e| format!("recv: {e}")) };
    let Some(mut c) = connect() else { let _ = child.kill(); eprintln!("server did not come up"); return 2; };
    let alive = |problems: &mut Vec<String>, what: &str| { match connect() { Some(mut p) => match ask(&mut p, &Request::Ping) { Ok(Response::Pong) => {} other => problems.push(format!("after {what}: Ping answered {other:?}")) }, None => problems.push(format!("after {what}: the server no longer accepts connections")) } };
    // 1. the SQL conversation, mirrored in process
    let mirror = axmosdb::Database::create(dir.join("mirror.axm"), crate::eng::default_cfg()).expect("mirror");
    let mut r = util::rng(seed, 20);
    let mut stmts: Vec<String> = vec!["CREATE TABLE w (id INT, a INT, t TEXT)".into(), "SELECT id, a, t FROM w".into()];
    for i in 1..=40 { let t = rand_string(&mut r, 12).replace('\'', "").replace('\0', "").replace('\\', ""); stmts.push(format!("INSERT INTO w (id, a, t) VALUES ({i}, {}, {})", if r.random_range(0..5) == 0 { "NULL".to_string() } else { r.random_range(-9..99).to_string() }, if r.random_range(0..6) == 0 { "NULL".to_string() } else { format!("'{t}'") })); if i % 7 == 0 { stmts.push(format!("SELECT id, a, t FROM w WHERE id >= {}", r.random_range(0..i))); } }
    stmts.push("SELECT id, a, t FROM w".into());
    stmts.push("SELECT COUNT(*) FROM w".into());
    stmts.push("DELETE FROM w WHERE id > 100".into());
    stmts.push("SELECT nosuch FROM w".into());
    let (mut rows_compared, mut convs) = (0usize, 0usize);
    for sql in &stmts {
        let got = ask(&mut c, &Request::Sql(sql.clone()));
        let want = mirror.execute(sql);
        convs += 1;
        let same = match (&got, &want) {
            (Ok(Response::Rows { columns, data }), Ok(axmosdb::runtime::QueryResult::Rows(rows))) => {
                let wc: Vec<String> = if rows.is_empty() { vec![] } else { (0..rows.num_columns()).map(|i| rows.column(i).expect("column").to_string()).collect() };
                let wd: Vec<Vec<String>> = rows.iterrows().map(|row| row.iter().map(|v| v.to_string()).collect()).collect();
                rows_compared += wd.len();
                *columns == wc && *data == wd
            }
            (Ok(Response::RowsAffected(n)), Ok(axmosdb::runtime::QueryResult::RowsAffected(m))) => n == m,
            (Ok(Response::Ddl(_)), Ok(axmosdb::runtime::QueryResult::Ddl(_))) => true,
            (Ok(Response::Error(_)), Err(_)) => true,
            _ => false,
        };
        t.ev(json!({"ev": "srv", "sql": sql.chars().take(80).collect::<String>(), "same": same}));
        if !same { problems.push(format!("{sql}: server answered {:?}, in process {:?}", got.as_ref().map(|x| format!("{x:?}").chars().take(200).collect::<String>()), want.as_ref().map(|_| "ok").map_err(|e| e.to_string()))); }
    }
    // transaction verbs
    for (req, want) in [(Request::Begin, "SessionStarted"), (Request::Sql("INSERT INTO w (id, a, t) VALUES (500, 1, 'x')".into()), "RowsAffected"), (Request::Rollback, "SessionEnd"), (Request::Commit, "Error"), (Request::Ping, "Pong")] {
        let got = ask(&mut c, &req).map(|x| format!("{x:?}")).unwrap_or_else(|e| e);
        let ok = got.starts_with(want);
        t.ev(json!({"ev": "srv", "sql": format!("{req:?}").chars().take(60).collect::<String>(), "same": ok}));
        if !ok { problems.push(format!("{req:?}: answered {got}")); }
    }
    drop(c);
    // 2. garbage on fresh connections
    let text = std::fs::read_to_string(a.str("cases", "")).unwrap_or_default();
    let mut garbage = 0usize;
    for (k, line) in text.lines().enumerate() {
        let cse: Value = match serde_json::from_str(line) { Ok(v) => v, Err(_) => continue };
        if cse["kind"] != "req" || cse["verdict"]["ok"] == true { continue; }
        let bytes = bytes_of(&cse["bytes"]);
        let Some(mut s) = connect() else { problems.push("the server no longer accepts connections".into()); break; };
        s.set_read_timeout(Some(Duration::from_secs(5))).ok();
        let mut frame = (bytes.len() as u32).to_le_bytes().to_vec();
        frame.extend_from_slice(&bytes);
        let _ = s.write_all(&frame);
        let _ = s.flush();
        let mut buf = [0u8; 64];
        let ended = match s.read(&mut buf) { Ok(_) => true, Err(e) => e.kind() != std::io::ErrorKind::WouldBlock && e.kind() != std::io::ErrorKind::TimedOut };
        garbage += 1;
        t.ev(json!({"ev": "garbage", "bytes": bytes.len(), "ended": ended}));
        if !ended { problems.push(format!("no answer and no close within 5 s for bytes {bytes:?}")); }
        if k % 97 == 0 { alive(&mut problems, &format!("garbage {bytes:?}")); }
        if problems.len() > 5 { break; }
    }
    // an absurd length prefix, and a frame cut short
    for junk in [vec![0xff, 0xff, 0xff, 0x7f], vec![10, 0, 0, 0, 1, 7]] {
        if let Some(mut s) = connect() { let _ = s.write_all(&junk); let _ = s.shutdown(std::net::Shutdown::Write); let mut b = [0u8; 16]; let _ = s.read(&mut b); }
    }
    alive(&mut problems, "oversized / truncated frames");
    // 3. shutdown
    if let Some(mut s) = connect() { let _ = ask(&mut s, &Request::Shutdown); }
    let mut exited = false;
    for _ in 0..100 { if let Ok(Some(_)) = child.try_wait() { exited = true; break; } std::thread::sleep(Duration::from_millis(50)); }
    if !exited { let _ = child.kill(); let _ = child.wait(); }
    t.ev(json!({"ev": "srv", "sql": "shutdown", "same": true}));
    let n = t.finish();
    let _ = std::fs::remove_dir_all(&dir);
    let out = a.str("report", "");
    if !out.is_empty() { std::fs::write(&out, serde_json::to_string_pretty(&json!({"problems": problems})).unwrap()).unwrap(); }
    println!("{}", json!({"events": n, "statements": convs, "rows_compared": rows_compared, "garbage_frames": garbage, "problems": problems.len(), "first": problems.first()}));
    0
}

pub fn main(a: &Args) -> i32 {
    match a.0.first().map(|s| s.as_str()) {
        Some("replay") => replay(a),
        Some("trace") => trace(a),
        Some("server") => server(a),
        _ => { eprintln!("usage: axv wire replay|trace"); 2 }
    }
}
