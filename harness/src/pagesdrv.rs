//! C11 driver: histories of DDL and DML with small and very large rows, rollbacks, failing statements, VACUUM, DROP and
//! reopen on files of every page size; every allocate_page / dealloc_page of the pager is recorded through the hook,
//! and at every quiescent point the whole file is audited (verif::audit).  PagerTrace.tla validates the trace.
use crate::audit;
use crate::eng::{self, Eng, Out};
use crate::util::{self, Args, Trace};
use axmosdb::verif::{PageEvent, audit::audit as walk, set_page_sink};
use rand::Rng;
use serde_json::json;
use std::sync::{Arc, Mutex};

type R = rand_chacha::ChaCha8Rng;

struct Drv {
    eng: Eng,
    t: Trace,
    q: Arc<Mutex<Vec<PageEvent>>>,
    hung: bool,
    stmts: usize,
    errors: usize,
    audits: usize,
    max_total: u64,
    reused: u64,
    grown: u64,
    freed: u64,
    chains: u64,
    panics: Vec<String>,
    probe: Option<std::fs::File>,
    /// tables in which an interior cell references an overflow chain (finding SeparatorAliasesOverflowChain): rows of such a
    /// table are not rewritten (UPDATE / DELETE / VACUUM), that would free a chain the separator still points to
    aliased: Vec<String>,
    skipped: usize,
}

impl Drv {
    fn drain(&mut self) {
        let evs: Vec<PageEvent> = std::mem::take(&mut *self.q.lock().unwrap());
        for e in evs {
            match e {
                PageEvent::Alloc { id, reused } => { if reused { self.reused += 1 } else { self.grown += 1 }; self.t.ev(json!({"ev": "alloc", "id": id, "reused": reused})); }
                PageEvent::Dealloc { id } => { self.freed += 1; self.t.ev(json!({"ev": "dealloc", "id": id})); }
            }
        }
    }
    fn note(&mut self, what: &str, o: &Out) {
        match o { Out::Hang => self.hung = true, Out::Panic(p) => self.panics.push(p.clone()), Out::Err { .. } => self.errors += 1, _ => {} }
        self.drain();
        let sql: String = what.chars().take(160).collect();
        self.t.ev(json!({"ev": "stmt", "sql": sql, "len": what.len(), "out": o.json()}));
    }
    fn p(&mut self, line: &str) { use std::io::Write; if let Some(f) = self.probe.as_mut() { let _ = writeln!(f, "{line}"); } }
    fn sql(&mut self, s: u32, sql: &str) -> Out { self.p(&if s == 0 { sql.to_string() } else { format!("{s}: {sql}") }); let o = self.eng.exec(s, sql); self.stmts += 1; self.note(sql, &o); o }
    fn audit(&mut self) {
        self.drain();
        let o = self.eng.with(|db| {
            let a = walk(db);
            let pr = audit::problems_structure(&a);
            let aliased: Vec<String> = a.trees.iter().filter(|t| t.pages.iter().any(|p| !p.leaf && !p.overflow_heads.is_empty())).map(|t| t.name.clone()).collect();
            let owned: Vec<Vec<u64>> = a.trees.iter().map(|t| { let mut v: Vec<u64> = t.pages.iter().map(|p| p.id).collect(); for (_, c) in &t.chains { v.extend(c.iter().copied()); } v }).collect();
            Out::Info(json!({"total": a.total_pages, "free": a.free_list, "owned": owned, "aliased": aliased, "names": a.trees.iter().map(|t| if t.creator_aborted || (t.dropped_by.is_some() && !t.dropper_aborted) { format!("({})", t.name) } else { t.name.clone() }).collect::<Vec<_>>(),
                "refs": a.trees.iter().map(|t| t.pages.iter().flat_map(|p| p.overflow_heads.iter().map(move |(s, h)| json!([p.id, s, h, p.leaf]))).collect::<Vec<_>>()).collect::<Vec<_>>(),
                "chain_pages": a.trees.iter().map(|t| t.chains.iter().map(|c| c.1.len()).sum::<usize>()).sum::<usize>(), "nproblems": pr.len(), "problems": pr.iter().take(5).collect::<Vec<_>>()}))
        });
        match o {
            Out::Info(mut v) => {
                self.audits += 1;
                self.max_total = self.max_total.max(v["total"].as_u64().unwrap_or(0));
                self.chains += v["chain_pages"].as_u64().unwrap_or(0);
                self.aliased = v["aliased"].as_array().map(|a| a.iter().map(|x| x.as_str().unwrap_or("").to_string()).collect()).unwrap_or_default();
                v["ev"] = json!("audit");
                self.t.ev(v);
            }
            other => { self.note("audit", &other); self.t.ev(json!({"ev": "audit", "total": 0, "free": [], "owned": [], "names": [], "nproblems": 1, "problems": [format!("audit failed: {}", other.json())]})); }
        }
    }
}

fn text(r: &mut R, page: usize, big: bool) -> String {
    // "big" tables hold rows that continue in overflow chains; the others hold rows that always fit a cell, many per page
    let n = if big { match r.random_range(0..4) { 0 => page / 2 + 17, 1 => page + 100, 2 => 2 * page + 5, _ => page / 4 + 300 } }
            else { match r.random_range(0..10) { 0 => 0, 1 | 2 | 3 => r.random_range(1..40), 4 | 5 => page / 40, 6 => page / 24, _ => r.random_range(40..160) } };
    let c = ["x", "y", "z"][r.random_range(0..3)];
    c.repeat(n)
}

fn segment(d: &mut Drv, r: &mut R, dir: &std::path::Path, seg: u64) {
    let _ = d.eng.close();
    let _ = std::fs::remove_dir_all(dir);
    std::fs::create_dir_all(dir).unwrap();
    let file = dir.join("db.axm");
    let page = *[4096usize, 8192, 16384, 32768].get(r.random_range(0..4)).unwrap();
    let is_big = |name: &str| name == "p3" || name == "p2";   // p2 and p3 hold rows with overflow chains
    let mk = |r: &mut R| eng::cfg(page, *[16usize, 64, 2000].get(r.random_range(0..3)).unwrap(), r.random_range(1..4), r.random_range(3..6), r.random_range(1..4));
    d.q.lock().unwrap().clear();
    d.t.ev(json!({"ev": "reset", "page": page, "seg": seg}));
    let c = mk(r);
    d.p(&format!("# segment {seg}\ncreate {} {} {} {} {}", c.page_size, c.cache_size, c.pool_size, c.min_keys_per_page, c.num_siblings_per_side));
    let o = d.eng.create(&file, c);
    d.note("create database", &o);
    d.audit();
    let names = ["p1", "p2", "p3"];
    let mut live: Vec<(String, bool, i64)> = vec![]; // name, unique id, next id
    let steps = r.random_range(40..90);
    for _ in 0..steps {
        if d.hung { return; }
        let k = r.random_range(0..100);
        if k < 12 || live.is_empty() {
            let name = names[r.random_range(0..3)];
            if live.iter().any(|t| t.0 == name) { continue; }
            let u = r.random_bool(0.4);
            let o = d.sql(0, &format!("CREATE TABLE {name} (id INT, a INT, t TEXT{})", if u { ", UNIQUE(id)" } else { "" }));
            if o.is_ok() { live.push((name.to_string(), u, 1)); }
        } else if k < 50 {
            let i = r.random_range(0..live.len());
            if is_big(&live[i].0) && live[i].2 > 14 { continue; }
            let rows = if is_big(&live[i].0) { 1 } else if r.random_bool(0.3) { r.random_range(10..40) } else { r.random_range(1..9) };
            let mut vals = vec![];
            for _ in 0..rows { let id = live[i].2; live[i].2 += 1; vals.push(format!("({id}, {}, '{}')", r.random_range(-5..50), text(r, page, is_big(&live[i].0)))); }
            // sometimes through a session that rolls back, sometimes a statement that fails half way (duplicate key)
            match r.random_range(0..10) {
                0 | 1 => { if d.eng.begin(1).is_ok() { d.p("begin 1"); d.sql(1, &format!("INSERT INTO {} (id, a, t) VALUES {}", live[i].0, vals.join(", "))); d.p("rollback 1"); let o = d.eng.rollback(1); d.note("rollback", &o); d.eng.drop_session(1); } }
                2 if live[i].1 && live[i].2 > 2 => { vals.push(format!("(1, 0, '{}')", text(r, page, is_big(&live[i].0)))); d.sql(0, &format!("INSERT INTO {} (id, a, t) VALUES {}", live[i].0, vals.join(", "))); }
                _ => { d.sql(0, &format!("INSERT INTO {} (id, a, t) VALUES {}", live[i].0, vals.join(", "))); }
            }
        } else if k < 62 {
            let i = r.random_range(0..live.len());
            if d.aliased.contains(&live[i].0) { d.skipped += 1; continue; }
            if !live[i].1 { let m = r.random_range(2..5); d.sql(0, &format!("UPDATE {} SET t = '{}' WHERE id % {m} = {}", live[i].0, text(r, page, is_big(&live[i].0)), r.random_range(0..m))); }
        } else if k < 74 {
            let i = r.random_range(0..live.len());
            let lo = r.random_range(0..live[i].2.max(1));
            if d.aliased.contains(&live[i].0) { d.skipped += 1; continue; }
            d.sql(0, &format!("DELETE FROM {} WHERE id >= {lo} AND id < {}", live[i].0, lo + r.random_range(1..8)));
        } else if k < 82 && !d.aliased.is_empty() { d.skipped += 1; continue; }
        else if k < 82 { d.p("vacuum"); let o = d.eng.vacuum(); d.note("vacuum", &o); }
        else if k < 87 { d.p("flush"); let o = d.eng.flush(); d.note("flush", &o); }
        else if k < 93 {
            let i = r.random_range(0..live.len());
            let o = d.sql(0, &format!("DROP TABLE {}", live[i].0));
            if o.is_ok() { live.remove(i); }
        } else if k < 96 {
            let i = r.random_range(0..live.len());
            // over the id column (no duplicates) or over the text column (usually duplicates: must be refused and release the pages it took)
            // (only where the text is short: an index key that itself continues in an overflow chain still aliases it, finding LargeKeySeparatorAliasesChain)
            if r.random_bool(0.3) && !is_big(&live[i].0) { d.sql(0, &format!("CREATE UNIQUE INDEX ixt_{}_{} ON {} (t)", live[i].0, r.random_range(0..1000), live[i].0)); }
            if !live[i].1 { let o = d.sql(0, &format!("CREATE UNIQUE INDEX ix_{}_{} ON {} (id)", live[i].0, r.random_range(0..1000), live[i].0)); if o.is_ok() { live[i].1 = true; } }
        } else {
            let _ = d.eng.close();
            let c = mk(r);
            d.p(&format!("close\nopen {} {} {} {} {}", c.page_size, c.cache_size, c.pool_size, c.min_keys_per_page, c.num_siblings_per_side));
            let o = d.eng.open(&file, c);
            d.drain();
            d.t.ev(json!({"ev": "reopen", "out": o.json()}));
            if !o.is_ok() { d.errors += 1; return; }
        }
        d.audit();
        if d.aliased.iter().any(|n| n.starts_with('<')) { d.skipped += 1; break; }
    }
    // a unique index that is refused late: the table gets a few hundred rows and, as its last row, a second copy of its first
    // id, so that the build has split the index well beyond its root when the duplicate turns up - every page it took
    // must come back (one segment in three; small pages only, so that a few hundred entries do not fit one leaf)
    if !d.hung && page <= 8192 && d.aliased.is_empty() && seg % 3 == 1 {
        let name = "p4";
        let o = d.sql(0, &format!("CREATE TABLE {name} (id INT, a INT, t TEXT)"));
        if o.is_ok() {
            let total = r.random_range(350..600);
            let mut id = 1;
            while id <= total {
                let mut vals = vec![];
                for _ in 0..40 { if id > total { break; } vals.push(format!("({id}, {}, '{}')", r.random_range(-5..50), "w".repeat(r.random_range(0..12)))); id += 1; }
                d.sql(0, &format!("INSERT INTO {name} (id, a, t) VALUES {}", vals.join(", ")));
            }
            d.audit();
            d.sql(0, &format!("INSERT INTO {name} (id, a, t) VALUES (1, 0, 'dup')"));
            d.sql(0, &format!("CREATE UNIQUE INDEX ix_late_{seg} ON {name} (id)"));
            d.audit();
            d.sql(0, &format!("DELETE FROM {name} WHERE t = 'dup'"));
            d.sql(0, &format!("CREATE UNIQUE INDEX ix_late2_{seg} ON {name} (id)"));
            d.audit();
        }
    }
    if d.aliased.is_empty() {
        d.p("vacuum");
        let o = d.eng.vacuum(); d.note("vacuum", &o);
        d.audit();
    }
}

pub fn main(a: &Args) -> i32 {
    let seed = a.num("seed", 1);
    let segs = a.num("segments", 4);
    let dir = std::path::PathBuf::from(a.str("dir", "/verif/work/pages-db"));
    let q: Arc<Mutex<Vec<PageEvent>>> = Arc::new(Mutex::new(vec![]));
    let q2 = q.clone();
    set_page_sink(Some(Box::new(move |e| { let mut g = q2.lock().unwrap(); if g.len() < 200_000 { g.push(e); } })));
    let mut d = Drv { eng: Eng::new(), t: Trace::create(std::path::Path::new(&a.str("out", "/verif/work/pages.ndjson"))), q, hung: false, stmts: 0, errors: 0, audits: 0,
        max_total: 0, reused: 0, grown: 0, freed: 0, chains: 0, panics: vec![], aliased: vec![], skipped: 0, probe: a.get("probe-out").map(|p| std::fs::File::create(p).unwrap()) };
    let mut r = util::rng(seed, 11);
    for s in 0..segs { if d.hung { break; } segment(&mut d, &mut r, &dir, s); }
    let _ = d.eng.close();
    set_page_sink(None);
    let _ = std::fs::remove_dir_all(&dir);
    let n = d.t.n;
    d.t.finish();
    println!("{}", json!({"events": n, "segments": segs, "stmts": d.stmts, "errors": d.errors, "audits": d.audits, "max_total_pages": d.max_total, "allocs_reused": d.reused,
        "allocs_grown": d.grown, "deallocs": d.freed, "overflow_chain_pages_seen": d.chains, "skipped_for_alias_finding": d.skipped, "hung": d.hung, "panics": d.panics}));
    0
}
