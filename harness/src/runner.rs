//! Recording runner: drives the engine through its public API and writes one trace event per
//! specification action (DbTrace.tla).  Autocommit calls are recorded as begin/stmt/commit|rollback
//! of session 0, which is what Database::execute does internally.
use crate::eng::{self, Eng, Out};
use crate::sqlgen::{Stmt, out_val};
use crate::util::Trace;
use axmosdb::DBConfig;
use serde_json::{Value, json};
use std::path::PathBuf;

pub struct Runner {
    pub eng: Eng,
    pub t: Trace,
    pub dir: PathBuf,
    pub dbfile: PathBuf,
    pub next_tx: u64,
    pub open_sessions: Vec<u32>,
    pub hung: bool,
    pub stmts: usize,
    pub errors: usize,
    pub panics: Vec<String>,
    pub sess_tx: std::collections::HashMap<u32, u64>,
}

pub fn out_json(o: &Out) -> Value {
    match o {
        Out::Rows(r) => json!({"k": "rows", "rows": r.iter().map(|row| row.iter().map(out_val).collect::<Vec<_>>()).collect::<Vec<_>>()}),
        other => other.json(),
    }
}

impl Runner {
    pub fn new(dir: PathBuf, t: Trace) -> Self {
        let dbfile = dir.join("db.axm");
        Self { eng: Eng::new(), t, dir, dbfile, next_tx: 1, open_sessions: vec![], hung: false, stmts: 0, errors: 0, panics: vec![], sess_tx: Default::default() }
    }

    fn note(&mut self, o: &Out) {
        match o {
            Out::Hang => self.hung = true,
            Out::Panic(p) => self.panics.push(p.clone()),
            Out::Err { .. } => self.errors += 1,
            _ => {}
        }
    }

    /// new scratch database; every segment of a trace starts here
    pub fn reset(&mut self, cfg: DBConfig) -> Out {
        let _ = self.eng.close();
        let _ = std::fs::remove_dir_all(&self.dir);
        std::fs::create_dir_all(&self.dir).unwrap();
        self.open_sessions.clear();
        let o = self.eng.create(&self.dbfile, cfg);
        self.t.ev(json!({"ev": "reset", "cfg": cfg_json(&cfg), "out": o.json()}));
        self.note(&o);
        o
    }

    pub fn reopen(&mut self, cfg: DBConfig) -> Out {
        let _ = self.eng.close();
        self.open_sessions.clear();
        let o = self.eng.open(&self.dbfile, cfg);
        self.t.ev(json!({"ev": "reopen", "cfg": cfg_json(&cfg), "out": o.json()}));
        self.note(&o);
        o
    }

    /// the process "dies": the files as they are on disk right now are copied and the copy is opened (recovery runs);
    /// for the specification this is a reopen - open transactions end, everything acknowledged stays
    pub fn crash_reopen(&mut self, cfg: DBConfig) -> Out {
        let generation = self.stmts;
        let new_dir = self.dir.join(format!("crash-{generation}"));
        let _ = std::fs::create_dir_all(&new_dir);
        let old = self.dbfile.clone();
        let old_log = old.parent().unwrap().join("axmos.log");
        let _ = std::fs::copy(&old, new_dir.join("db.axm"));
        let _ = std::fs::copy(&old_log, new_dir.join("axmos.log"));
        let _ = self.eng.close();
        self.open_sessions.clear();
        self.dbfile = new_dir.join("db.axm");
        let o = self.eng.open(&self.dbfile, cfg);
        self.t.ev(json!({"ev": "reopen", "crash": true, "cfg": cfg_json(&cfg), "out": o.json()}));
        self.note(&o);
        o
    }

    fn fresh_tx(&mut self) -> u64 {
        self.next_tx += 1;
        self.next_tx - 1
    }

    /// autocommit statement
    pub fn auto(&mut self, s: &Stmt) -> Out {
        let tx = self.fresh_tx();
        self.t.ev(json!({"ev": "begin", "s": 0, "tx": tx, "auto": true, "out": {"k": "unit"}}));
        let sql = s.sql();
        let o = self.eng.exec(0, &sql);
        self.stmts += 1;
        self.note(&o);
        self.t.ev(json!({"ev": "stmt", "s": 0, "sql": sql, "q": s.json(), "out": out_json(&o)}));
        if o.is_ok() {
            self.t.ev(json!({"ev": "commit", "s": 0, "auto": true, "out": {"k": "unit"}}));
        } else {
            self.t.ev(json!({"ev": "rollback", "s": 0, "auto": true}));
        }
        o
    }

    /// execute_batch: all statements in one transaction
    pub fn batch(&mut self, sts: &[Stmt]) -> Out {
        let tx = self.fresh_tx();
        self.t.ev(json!({"ev": "begin", "s": 0, "tx": tx, "auto": true, "out": {"k": "unit"}}));
        let sqls: Vec<String> = sts.iter().map(|s| s.sql()).collect();
        let o = self.eng.batch(sqls.clone());
        self.stmts += sts.len();
        self.note(&o);
        self.t.ev(json!({"ev": "batch", "s": 0, "sqls": sqls, "qs": sts.iter().map(|s| s.json()).collect::<Vec<_>>(), "out": out_json(&o)}));
        if o.is_ok() {
            self.t.ev(json!({"ev": "commit", "s": 0, "auto": true, "out": {"k": "unit"}}));
        } else {
            self.t.ev(json!({"ev": "rollback", "s": 0, "auto": true}));
        }
        o
    }

    pub fn begin(&mut self, s: u32) -> Out {
        let tx = self.fresh_tx();
        let o = self.eng.begin(s);
        self.note(&o);
        self.t.ev(json!({"ev": "begin", "s": s, "tx": tx, "out": o.json()}));
        if o.is_ok() { self.open_sessions.push(s); self.sess_tx.insert(s, tx); }
        o
    }

    pub fn stmt(&mut self, s: u32, st: &Stmt) -> Out {
        let sql = st.sql();
        let o = self.eng.exec(s, &sql);
        self.stmts += 1;
        self.note(&o);
        self.t.ev(json!({"ev": "stmt", "s": s, "sql": sql, "q": st.json(), "out": out_json(&o)}));
        o
    }

    pub fn commit(&mut self, s: u32) -> Out {
        let o = self.eng.commit(s);
        self.note(&o);
        self.t.ev(json!({"ev": "commit", "s": s, "out": o.json()}));
        self.eng.drop_session(s);
        self.open_sessions.retain(|x| *x != s);
        o
    }

    pub fn rollback(&mut self, s: u32) -> Out {
        let o = self.eng.rollback(s);
        self.note(&o);
        self.t.ev(json!({"ev": "rollback", "s": s, "out": o.json()}));
        self.eng.drop_session(s);
        self.open_sessions.retain(|x| *x != s);
        o
    }

    /// the session handle is dropped without commit or rollback
    pub fn drop_session(&mut self, s: u32) -> Out {
        let o = self.eng.drop_session(s);
        self.t.ev(json!({"ev": "rollback", "s": s, "dropped": true, "out": o.json()}));
        self.open_sessions.retain(|x| *x != s);
        o
    }

    pub fn vacuum(&mut self) -> Out {
        let o = self.eng.vacuum();
        self.note(&o);
        self.t.ev(json!({"ev": "vacuum", "out": o.json()}));
        self.open_sessions.clear();
        o
    }

    /// statements of a session that VACUUM has aborted
    pub fn zombie_stmt(&mut self, s: u32, st: &Stmt) -> Out {
        let sql = st.sql();
        let o = self.eng.exec(s, &sql);
        self.note(&o);
        self.t.ev(json!({"ev": "zombie", "s": s, "sql": sql, "out": out_json(&o)}));
        o
    }

    pub fn zombie_commit(&mut self, s: u32) -> Out {
        let o = self.eng.commit(s);
        self.note(&o);
        self.t.ev(json!({"ev": "zcommit", "s": s, "out": o.json()}));
        self.eng.drop_session(s);
        o
    }

    pub fn flush(&mut self) -> Out {
        let o = self.eng.flush();
        self.note(&o);
        self.t.ev(json!({"ev": "flush", "out": o.json()}));
        o
    }

    pub fn analyze(&mut self) -> Out {
        let o = self.eng.analyze();
        self.note(&o);
        self.t.ev(json!({"ev": "analyze", "out": o.json()}));
        o
    }

    pub fn finish(mut self) -> (usize, usize, usize, Vec<String>, bool) {
        let _ = self.eng.close();
        let _ = std::fs::remove_dir_all(&self.dir);
        let n = self.t.finish();
        (n, self.stmts, self.errors, self.panics, self.hung)
    }
}

pub fn cfg_json(c: &DBConfig) -> Value {
    json!({"page": c.page_size, "cache": c.cache_size, "pool": c.pool_size, "min_keys": c.min_keys_per_page, "siblings": c.num_siblings_per_side})
}

pub fn default_cfg() -> DBConfig {
    eng::default_cfg()
}
