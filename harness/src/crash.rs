//! C01 C02 C08 driver: crash-image enumeration.  A workload runs on the real engine with the I/O tap installed
//! (every write / set_len / sync of the database file and the log is recorded); afterwards the pair of files is
//! rebuilt as it was after the k-th write, for many k, and opened by a child process (`axv reopen-child`) under a
//! watchdog.  What the child reads becomes a `crashread` event placed after the last call that had returned.
use crate::dbdrv::*;
use crate::runner::{Runner, default_cfg};
use crate::sqlgen::*;
use crate::util::{self, Args, Trace};
use axmosdb::verif::IoEvent;
use rand::Rng;
use serde_json::{Value, json};
use std::{
    collections::HashMap,
    path::{Path, PathBuf},
    sync::{Arc, Mutex},
};

type Tap = Arc<Mutex<Vec<IoEvent>>>;

fn install_tap() -> Tap {
    let tap: Tap = Arc::new(Mutex::new(Vec::new()));
    let t2 = tap.clone();
    axmosdb::verif::set_io_sink(Some(Box::new(move |e| t2.lock().unwrap().push(e))));
    tap
}

struct Mark { after_event: usize, io0: usize, io1: usize, tx: Option<u64>, what: &'static str }

/// the recorded call: events appended to the trace buffer, tap indexes at start and return
fn call<T>(run: &mut Runner, tap: &Tap, marks: &mut Vec<Mark>, what: &'static str, tx_of: impl Fn(&Runner) -> Option<u64>, f: impl FnOnce(&mut Runner) -> T) -> T {
    let io0 = tap.lock().unwrap().len();
    let r = f(run);
    let io1 = tap.lock().unwrap().len();
    let n = run.t.buf.as_ref().unwrap().len();
    marks.push(Mark { after_event: n, io0, io1, tx: tx_of(run), what });
    r
}

/// what a fresh process finds in the image: the tables, and whether the file is structurally sound
fn sound(e: &mut crate::eng::Eng) -> Value {
    match e.with(|db| {
        let a = axmosdb::verif::audit::audit(db);
        let p: Vec<String> = crate::audit::problems(&a).into_iter().filter(|p| !p.contains("leaked") && !p.contains("first_free") && !p.contains("last_free")).take(4).collect();
        crate::eng::Out::Info(json!(p))
    }) {
        crate::eng::Out::Info(v) => v,
        o => json!([format!("audit did not finish: {}", o.json())]),
    }
}

pub fn child(a: &Args) -> i32 {
    crate::eng::install_panic_hook();
    let db = PathBuf::from(a.str("db", ""));
    let tables: Vec<String> = a.str("tables", "").split(',').filter(|s| !s.is_empty()).map(String::from).collect();
    let nested_n = a.num("nested", 0) as usize;
    let mut e = crate::eng::Eng::new();
    e.timeout = std::time::Duration::from_secs(a.num("timeout", 30));
    // tables named in --idonly are big: only their ids are read (proj), the specification compares id sets
    let idonly: Vec<String> = a.str("idonly", "").split(',').filter(|s| !s.is_empty()).map(String::from).collect();
    let read = |e: &mut crate::eng::Eng| -> Vec<Value> {
        tables.iter().map(|t| {
            let proj = idonly.contains(t);
            let o = e.exec(0, &if proj { format!("SELECT {t}.id FROM {t}") } else { format!("SELECT * FROM {t}") });
            json!({"name": t, "proj": proj, "out": crate::runner::out_json(&o)})
        }).collect()
    };
    // the image itself, and (nested crash points, C08) every write recovery makes while the database opens
    let mut image: HashMap<String, Vec<u8>> = HashMap::new();
    if nested_n > 0 {
        for f in std::fs::read_dir(db.parent().unwrap()).unwrap().flatten() {
            if f.path().is_file() { image.insert(f.file_name().to_string_lossy().into_owned(), std::fs::read(f.path()).unwrap()); }
        }
    }
    let tap = if nested_n > 0 { Some(install_tap()) } else { None };
    let open = e.open(&db, default_cfg());
    let rec_log: Vec<IoEvent> = tap.as_ref().map(|t| t.lock().unwrap().clone()).unwrap_or_default();
    axmosdb::verif::set_io_sink(None);
    let mut out = json!({"open": open.json()});
    if open.is_ok() {
        let first = read(&mut e);
        out["tables"] = json!(first);
        out["sound"] = sound(&mut e);
        // opening an already recovered database changes nothing; the database is usable
        let _ = e.close();
        let again = e.open(&db, default_cfg());
        out["again_open"] = again.json();
        if again.is_ok() {
            let again_tables = read(&mut e);
            out["again_same"] = json!(json!(again_tables) == json!(first));
            out["again"] = if json!(again_tables) == json!(first) { json!([]) } else { json!(again_tables) };
            let p1 = e.exec(0, "CREATE TABLE zz_probe (id INT, v INT)");
            let p2 = e.exec(0, "INSERT INTO zz_probe (id, v) VALUES (1, 2)");
            let p3 = e.exec(0, "SELECT id, v FROM zz_probe");
            out["probe"] = json!([p1.json(), p2.json(), crate::runner::out_json(&p3)]);
        }
        let _ = e.close();
        // C08, depth 2: the process dies again while recovery runs - after the j-th write of the recovery above - and
        // a third process opens what is left.  It must find the same contents as the uninterrupted recovery did.
        let changing: Vec<usize> = (1..=rec_log.len()).filter(|k| !matches!(rec_log[k - 1], IoEvent::Sync { .. })).collect();
        let mut pts: Vec<usize> = vec![];
        if changing.len() <= nested_n { pts = changing.clone(); } else {
            // the points around truncations and syncs first, the rest evenly spread
            for k in 1..=rec_log.len() { if matches!(rec_log[k - 1], IoEvent::SetLen { .. }) { pts.extend([k - 1, k]); } }
            for (i, ev) in rec_log.iter().enumerate() { if matches!(ev, IoEvent::Sync { .. }) { pts.push(i); } }
            pts.retain(|k| changing.contains(k)); pts.sort(); pts.dedup(); pts.truncate(nested_n / 2);
            let want = nested_n - pts.len();
            for i in 0..want { pts.push(changing[(i * changing.len()) / want]); }
            pts.sort(); pts.dedup();
        }
        // recovery ends with a checkpoint: from its first page write until the log is truncated a crash point lies inside
        // Pager::flush (recorded finding CheckpointNotAtomic); `inflush` tells the specification so
        let is_db = |e: &IoEvent| matches!(e, IoEvent::Write { path, .. } if path.file_name().map(|n| n == "db.axm").unwrap_or(false));
        let first_page_write = rec_log.iter().position(|e| is_db(e)).map(|i| i + 1);
        let truncation = rec_log.iter().position(|e| matches!(e, IoEvent::SetLen { .. })).map(|i| i + 1);
        let mut nested: Vec<Value> = vec![];
        let ndir = db.parent().unwrap().join("nest");
        let mut files = image.clone();
        let mut applied = 0;
        for k in pts {
            while applied < k { apply(&mut files, &rec_log[applied]); applied += 1; }
            write_image(&files, &ndir);
            let mut e2 = crate::eng::Eng::new();
            e2.timeout = std::time::Duration::from_secs(30);
            let o = e2.open(&ndir.join("db.axm"), default_cfg());
            let mut n = json!({"k": k, "of": rec_log.len(), "open": o.json(), "same": false, "tables": [], "sound": [],
                "inflush": first_page_write.map(|f| k >= f).unwrap_or(false) && truncation.map(|t| k < t).unwrap_or(true)});
            if o.is_ok() {
                let t = read(&mut e2);
                n["sound"] = sound(&mut e2);
                if json!(t) == json!(first) { n["same"] = json!(true); } else { n["tables"] = json!(t); }
                let _ = e2.close();
            }
            nested.push(n);
        }
        let _ = std::fs::remove_dir_all(&ndir);
        out["nested"] = json!(nested);
        out["recovery_writes"] = json!(rec_log.len());
        let base = |p: &PathBuf| p.file_name().unwrap().to_string_lossy().into_owned();
        out["recovery_io"] = json!(rec_log.iter().take(60).map(|e| match e {
            IoEvent::Create { path } => format!("C {}", base(path)),
            IoEvent::Write { path, offset, bytes } => format!("W {}@{}+{}", base(path), offset, bytes.len()),
            IoEvent::SetLen { path, len } => format!("T {}={}", base(path), len),
            IoEvent::Sync { path } => format!("S {}", base(path)),
        }).collect::<Vec<_>>());
    }
    println!("{}", out);
    0
}

fn write_image(files: &HashMap<String, Vec<u8>>, dir: &Path) {
    let _ = std::fs::remove_dir_all(dir);
    std::fs::create_dir_all(dir).unwrap();
    for (name, bytes) in files { std::fs::write(dir.join(name), bytes).unwrap(); }
}

fn apply(files: &mut HashMap<String, Vec<u8>>, e: &IoEvent) {
    let base = |p: &PathBuf| p.file_name().unwrap().to_string_lossy().into_owned();
    match e {
        IoEvent::Create { path } => { files.insert(base(path), vec![]); }
        IoEvent::Write { path, offset, bytes } => {
            let f = files.entry(base(path)).or_default();
            let end = *offset as usize + bytes.len();
            if f.len() < end { f.resize(end, 0); }
            f[*offset as usize..end].copy_from_slice(bytes);
        }
        IoEvent::SetLen { path, len } => { files.entry(base(path)).or_default().resize(*len as usize, 0); }
        IoEvent::Sync { .. } => {}
    }
}

pub fn main(a: &Args) -> i32 {
    crate::eng::install_panic_hook();
    let seed = a.num("seed", 1);
    let histories = a.num("segments", 4);
    let max_points = a.num("points", 120) as usize;
    let nested_n = a.num("nested", 8);
    let unsafe_ckpt = a.flag("unsafe-checkpoints"); // witness mode for the checkpoint findings
    let steal = a.flag("steal");
    let dir = PathBuf::from(a.str("dir", "/verif/work/crash"));
    let out = PathBuf::from(a.str("out", "/verif/work/crash-trace.ndjson"));
    let exe = std::env::current_exe().unwrap();
    let mut final_trace = Trace::create(&out);
    let mut r = util::rng(seed, 5);
    let tap = install_tap();
    let (mut images, mut nontrivial, mut hung, mut stmts) = (0usize, 0usize, false, 0usize);
    let (mut nested_images, mut recovering) = (0usize, 0usize);
    for h in 0..histories {
        tap.lock().unwrap().clear();
        let mut run = Runner::new(dir.join("live"), Trace::create(&dir.join("scratch.ndjson")));
        run.t.buf = Some(vec![]);
        let mut marks: Vec<Mark> = vec![];
        let profile = (seed as usize + 2 * h as usize) % 5;   // 0,1: mixed; 2: many short rolled-back transactions; 3: DDL (create / drop / re-create); 4: fat rows, a log of several blocks
        // --steal: witness mode for the finding StealNotCrashSafe
        let small = steal;
        // fat rows (~200 bytes, 8-20 per statement): the log outgrows its first block (40 KiB), forces span block boundaries,
        // checkpoints truncate a log that has data blocks
        let fat_tab = small || profile == 4;
        // small: 16 frames of 4 KiB against a table of ~30 pages - dirty pages of open transactions are evicted (stolen) all the time
        run.reset(if small { crate::eng::cfg(4096, 16, 2, 3, 2) } else { default_cfg() });
        let checkpoint_share = if profile == 4 { 12 } else { [0, 5, 12][(seed as usize + h as usize) % 3] };
        let two = r.random_bool(0.5);
        let u = r.random_bool(0.5);
        let mut tabs: Vec<Tab> = vec![rand_table(&mut r, "t1", u)];
        if fat_tab {
            tabs[0].def.cols = vec![ColDef { name: "id".into(), ty: Ty::Int, nn: false }, ColDef { name: "c1".into(), ty: Ty::Int, nn: false }, ColDef { name: "c2".into(), ty: Ty::Text, nn: true }];
            tabs[0].def.uniq = vec![];
        }
        if two { tabs.push(rand_table(&mut r, "t2", false)); }
        for t in tabs.iter_mut() { t.updatable = false; }
        let no_tx = |_: &Runner| None;
        let last_auto = |run: &Runner| Some(run.next_tx - 1);
        for t in tabs.clone() { call(&mut run, &tap, &mut marks, "create", last_auto, |run| run.auto(&Stmt::Create(t.def.clone()))); }
        // fat rows: ~200 bytes each, n per statement
        let fat = |r: &mut R, t: &mut Tab, part: i64, n: usize| -> Stmt {
            let mut rows = vec![];
            for _ in 0..n {
                while t.next_id.rem_euclid(4) != part { t.next_id += 1; }
                rows.push(vec![V::Int(t.next_id), V::Int(r.random_range(-3..12)), V::Text(format!("{}{}", "x".repeat(180), t.next_id % 7))]);
                t.next_id += 1;
            }
            Stmt::Insert { tbl: "t1".into(), cols: vec![(1, "id".into()), (2, "c1".into()), (3, "c2".into())], rows }
        };
        if fat_tab {
            for _ in 0..(if small { r.random_range(22..30) } else { r.random_range(8..14) }) {
                let st = fat(&mut r, &mut tabs[0], 0, 20);
                if call(&mut run, &tap, &mut marks, "auto", last_auto, |run| run.auto(&st)).is_ok() { note_insert(&mut tabs[0], &st); }
            }
            if small || r.random_bool(0.5) { call(&mut run, &tap, &mut marks, "flush", no_tx, |run| run.flush()); }
        }
        let n = if profile == 2 { r.random_range(30..60) } else { r.random_range(12..32) };
        let mut open: Vec<u32> = vec![];
        let mut extra_live: Vec<Tab> = vec![];
        let mut extra_names: Vec<String> = vec![];
        let mut pending: HashMap<u32, Vec<(usize, Stmt)>> = HashMap::new();
        let mut session_tables = 0;
        for _ in 0..n {
            if run.hung { break; }
            let ti = r.random_range(0..tabs.len());
            let c = r.random_range(0..100);
            if profile == 2 && open.is_empty() && c >= 12 && c < 80 {
                // a short transaction: begin, one or two writes, mostly rolled back
                if call(&mut run, &tap, &mut marks, "begin", no_tx, |run| run.begin(1)).is_ok() {
                    let mut ins = vec![];
                    for _ in 0..r.random_range(1..3) {
                        let st = if r.random_bool(0.8) { rand_insert(&mut r, &mut tabs[ti], 1, 4, false) } else { rand_delete(&mut r, &tabs[ti], 1, 4) };
                        if call(&mut run, &tap, &mut marks, "stmt", no_tx, |run| run.stmt(1, &st)).is_ok() { ins.push(st); }
                    }
                    let tx = run.sess_tx.get(&1).copied();
                    match r.random_range(0..10) {
                        0..=6 => { call(&mut run, &tap, &mut marks, "rollback", no_tx, |run| run.rollback(1)); }
                        7 => { call(&mut run, &tap, &mut marks, "drop", no_tx, |run| run.drop_session(1)); }
                        _ => { if call(&mut run, &tap, &mut marks, "commit", move |_| tx, |run| run.commit(1)).is_ok() { for st in ins { note_insert(&mut tabs[ti], &st); } } }
                    }
                }
                continue;
            }
            if (profile == 3 && c >= 60 && c < 90) || (profile == 4 && c >= 75 && c < 90) {
                // DDL: a table comes, gets rows, goes, and its name comes back
                if extra_live.is_empty() {
                    let name = ["x1", "x2"][r.random_range(0..2)];
                    let mut t = rand_table(&mut r, name, false);
                    t.updatable = false;
                    if call(&mut run, &tap, &mut marks, "create", last_auto, |run| run.auto(&Stmt::Create(t.def.clone()))).is_ok() {
                        if !extra_names.contains(&name.to_string()) { extra_names.push(name.to_string()); }
                        let st = rand_insert(&mut r, &mut t, 0, 4, false);
                        call(&mut run, &tap, &mut marks, "auto", last_auto, |run| run.auto(&st));
                        extra_live.push(t);
                    }
                } else if r.random_bool(0.5) {
                    let t = extra_live.pop().unwrap();
                    call(&mut run, &tap, &mut marks, "dropddl", last_auto, |run| run.auto(&Stmt::Drop(t.def.name.clone())));
                } else {
                    let st = rand_insert(&mut r, &mut extra_live[0], 0, 4, false);
                    call(&mut run, &tap, &mut marks, "auto", last_auto, |run| run.auto(&st));
                }
                continue;
            }
            // a checkpoint while a transaction is open makes its uncommitted rows durable and drops its undo information
            // (finding CheckpointLeaksOpenTransaction): checkpoints only between transactions here
            // (a session that is open but has not written anything yet does not matter)
            if (c < checkpoint_share && open.iter().all(|s| pending.get(s).map(|p| p.is_empty()).unwrap_or(true))) || (unsafe_ckpt && c < 15) {
                call(&mut run, &tap, &mut marks, "flush", no_tx, |run| run.flush());
            } else if c < 45 {
                let s = if fat_tab && ti == 0 { fat(&mut r, &mut tabs[0], 0, 8) } else { rand_insert(&mut r, &mut tabs[ti], 0, 4, false) };
                let o = call(&mut run, &tap, &mut marks, "auto", last_auto, |run| run.auto(&s));
                if o.is_ok() { note_insert(&mut tabs[ti], &s); }
            } else if c < 55 {
                let s = rand_delete(&mut r, &tabs[ti], 0, 4);
                call(&mut run, &tap, &mut marks, "auto", last_auto, |run| run.auto(&s));
            } else if c < 65 && open.len() < 2 {
                let s = if open.contains(&1) { 2 } else { 1 };
                if call(&mut run, &tap, &mut marks, "begin", no_tx, |run| run.begin(s)).is_ok() { open.push(s); pending.insert(s, vec![]); }
            } else if c < 85 && !open.is_empty() && r.random_range(0..3) == 0 && session_tables < 2 {
                // a session creates a table and fills it: if the crash finds the session unfinished, neither may remain
                // (and recovery must cope with a CREATE that is in the log but never reached the file)
                let s = *pick(&mut r, &open);
                session_tables += 1;
                let name = format!("y{session_tables}");
                let mut t = rand_table(&mut r, &name, false);
                t.updatable = false;
                let cr = Stmt::Create(t.def.clone());
                if call(&mut run, &tap, &mut marks, "stmt", no_tx, |run| run.stmt(s, &cr)).is_ok() {
                    extra_names.push(name);
                    pending.get_mut(&s).unwrap().push((0, cr));
                    let st = rand_insert(&mut r, &mut t, 0, 4, false);
                    call(&mut run, &tap, &mut marks, "stmt", no_tx, |run| run.stmt(s, &st));
                }
            } else if c < 85 && !open.is_empty() {
                let s = *pick(&mut r, &open);
                let st = if fat_tab && ti == 0 { if r.random_bool(0.6) { fat(&mut r, &mut tabs[0], s as i64, 12) } else { rand_delete(&mut r, &tabs[0], s as i64, 4) } }
                    else if r.random_bool(0.7) { rand_insert(&mut r, &mut tabs[ti], s as i64, 4, false) } else { rand_delete(&mut r, &tabs[ti], s as i64, 4) };
                let o = call(&mut run, &tap, &mut marks, "stmt", no_tx, |run| run.stmt(s, &st));
                if o.is_ok() { pending.get_mut(&s).unwrap().push((ti, st)); }
            } else if !open.is_empty() {
                let s = open.remove(r.random_range(0..open.len()));
                let tx = run.sess_tx.get(&s).copied();
                if r.random_bool(0.6) {
                    let o = call(&mut run, &tap, &mut marks, "commit", move |_| tx, |run| run.commit(s));
                    if o.is_ok() { for (ti, st) in pending.remove(&s).unwrap_or_default() { note_insert(&mut tabs[ti], &st); } }
                } else if r.random_bool(0.7) {
                    call(&mut run, &tap, &mut marks, "rollback", no_tx, |run| run.rollback(s));
                } else {
                    call(&mut run, &tap, &mut marks, "drop", no_tx, |run| run.drop_session(s));
                }
            }
        }
        // whatever is still open stays open: the crash finds it unfinished
        let total = tap.lock().unwrap().len();
        stmts += run.stmts;
        let events: Vec<Value> = run.t.buf.take().unwrap();
        hung |= run.hung;
        // the live engine is closed only now; its closing writes are not part of any crash image
        let taplog: Vec<IoEvent> = tap.lock().unwrap()[..total].to_vec();
        let _ = run.finish();

        // crash points: everything next to a sync / set_len / call boundary, plus a seeded sample of the rest
        let mut pts: Vec<usize> = vec![];
        for (i, e) in taplog.iter().enumerate() { if matches!(e, IoEvent::Sync { .. } | IoEvent::SetLen { .. }) { pts.extend([i, i + 1]); } }
        for m in &marks { pts.extend([m.io0, m.io1]); if m.io1 > m.io0 + 1 { pts.push(r.random_range(m.io0 + 1..m.io1)); } }
        pts.retain(|k| *k <= total && *k >= 1);
        pts.sort(); pts.dedup();
        while pts.len() > max_points { let i = r.random_range(0..pts.len()); pts.remove(i); }
        let mut names: Vec<String> = tabs.iter().map(|t| t.def.name.clone()).collect();
        names.extend(extra_names.iter().cloned());

        // build the images in one pass over the tap log, open each in a child process (8 at a time)
        let mut files: HashMap<String, Vec<u8>> = HashMap::new();
        let mut jobs: Vec<(usize, PathBuf)> = vec![];
        let mut pi = 0;
        for (i, e) in taplog.iter().enumerate() {
            while pi < pts.len() && pts[pi] == i { let d = dir.join(format!("img-{h}-{}", pts[pi])); write_image(&files, &d); jobs.push((pts[pi], d)); pi += 1; }
            apply(&mut files, e);
        }
        while pi < pts.len() { let d = dir.join(format!("img-{h}-{}", pts[pi])); write_image(&files, &d); jobs.push((pts[pi], d)); pi += 1; }
        let results: Arc<Mutex<Vec<(usize, Value)>>> = Arc::new(Mutex::new(vec![]));
        let jobs = Arc::new(Mutex::new(jobs));
        let mut hs = vec![];
        for _ in 0..8 {
            let (jobs, results, exe, names) = (jobs.clone(), results.clone(), exe.clone(), names.clone());
            hs.push(std::thread::spawn(move || loop {
                let job = jobs.lock().unwrap().pop();
                let Some((k, d)) = job else { break };
                let mut ch = std::process::Command::new(&exe).args(["reopen-child", "--db", d.join("db.axm").to_str().unwrap(), "--tables", &names.join(","), "--nested", &nested_n.to_string(), "--idonly", if fat_tab { "t1" } else { "" }])
                    .stdout(std::process::Stdio::piped()).stderr(std::process::Stdio::null()).spawn().expect("spawn child");
                let t0 = std::time::Instant::now();
                let v = loop {
                    match ch.try_wait() {
                        Ok(Some(st)) => {
                            let mut s = String::new();
                            use std::io::Read;
                            ch.stdout.take().unwrap().read_to_string(&mut s).ok();
                            break s.lines().rev().find(|l| l.starts_with('{')).and_then(|l| serde_json::from_str(l).ok())
                                .unwrap_or_else(|| json!({"open": {"k": "panic", "at": format!("child died: {st}")}}));
                        }
                        Ok(None) if t0.elapsed().as_secs() > 90 => { let _ = ch.kill(); break json!({"open": {"k": "hang"}}); }
                        _ => std::thread::sleep(std::time::Duration::from_millis(5)),
                    }
                };
                let _ = std::fs::remove_dir_all(&d);
                results.lock().unwrap().push((k, v));
            }));
        }
        for t in hs { t.join().unwrap(); }
        let mut results = results.lock().unwrap().clone();
        results.sort_by_key(|x| x.0);
        images += results.len();

        // merge: a crash read goes after the last call that had completely returned (or is in flight)
        let mut by_event: HashMap<usize, Vec<Value>> = HashMap::new();
        for (k, v) in results {
            // the call this crash point belongs to: the first one with k < io1 is in flight iff k > io0
            let mut pos = 1; // after the reset event
            let mut inflight: Option<&Mark> = None;
            for m in &marks {
                if k >= m.io1 { pos = m.after_event; } else { if k > m.io0 { inflight = Some(m); pos = m.after_event; } break; }
            }
            let mut ev = json!({"ev": "crashread", "k": k, "inflight": false, "tx": 0, "during": ""});
            if let Some(m) = inflight { if let Some(tx) = m.tx { ev["inflight"] = json!(true); ev["tx"] = json!(tx); } ev["during"] = json!(m.what); }
            if marks.iter().any(|m| m.io1 <= k && matches!(m.what, "auto" | "commit")) { nontrivial += 1; }
            ev["open"] = v["open"].clone();
            ev["tables"] = v.get("tables").cloned().unwrap_or(json!([]));
            ev["again_open"] = v.get("again_open").cloned().unwrap_or(json!({"k": "unit"}));
            ev["again"] = v.get("again").cloned().unwrap_or(json!([]));
            ev["again_same"] = v.get("again_same").cloned().unwrap_or(json!(false));
            ev["probe"] = v.get("probe").cloned().unwrap_or(json!([]));
            ev["sound"] = v.get("sound").cloned().unwrap_or(json!([]));
            ev["nested"] = v.get("nested").cloned().unwrap_or(json!([]));
            ev["recovery_io"] = v.get("recovery_io").cloned().unwrap_or(json!([]));
            nested_images += ev["nested"].as_array().map(|a| a.len()).unwrap_or(0);
            if v.get("recovery_writes").and_then(|x| x.as_u64()).unwrap_or(0) > 0 { recovering += 1; }
            by_event.entry(pos).or_default().push(ev);
        }
        for (i, e) in events.iter().enumerate() {
            if let Some(v) = by_event.get(&i) { for c in v { final_trace.ev(c.clone()); } }
            final_trace.ev(e.clone());
        }
        if let Some(v) = by_event.get(&events.len()) { for c in v { final_trace.ev(c.clone()); } }
    }
    axmosdb::verif::set_io_sink(None);
    let n = final_trace.finish();
    let _ = std::fs::remove_dir_all(&dir);
    println!("{}", json!({"kind": "crash", "segments": histories, "events": n, "stmts": stmts, "errors": 0, "images": images + nested_images, "nested_images": nested_images, "recovering_images": recovering, "nontrivial": nontrivial, "hung": hung}));
    0
}
