//! C18 driver: one stored row (verif::tuple facade).
//!   tuple replay --in behaviours.ndjson   TLC-generated operation sequences with the decode every snapshot of the family must get
//!   tuple trace --seed S --out F          seeded rows of any schema, chains of up to 8 updates, validated by TupleTrace.tla
//! Values cross into the specification as ids: per column, id k >= 1 is the k-th entry of that column's value table
//! (rotated per row so that all boundary values get used), 0 is NULL, -1 is "a value that was never stored".
use crate::util::{self, Args, Trace};
use axmosdb::types::bool::Bool;
use axmosdb::types::{Blob, DataType, DataTypeKind, Float32, Float64, Int32, Int64, UInt32, UInt64};
use axmosdb::verif::tuple::{Snap, Tup};
use rand::Rng;
use serde_json::{Value, json};

const KINDS: [DataTypeKind; 8] = [DataTypeKind::Int, DataTypeKind::Blob, DataTypeKind::Bool, DataTypeKind::BigInt, DataTypeKind::Double,
    DataTypeKind::UInt, DataTypeKind::Float, DataTypeKind::BigUInt];

fn table(k: DataTypeKind) -> Vec<DataType> {
    match k {
        DataTypeKind::Bool => vec![DataType::Bool(Bool(true)), DataType::Bool(Bool(false))],
        DataTypeKind::Int => [0, -1, i32::MAX, i32::MIN, 42].iter().map(|v| DataType::Int(Int32(*v))).collect(),
        DataTypeKind::BigInt => [0, -1, i64::MAX, i64::MIN, 1 << 40].iter().map(|v| DataType::BigInt(Int64(*v))).collect(),
        DataTypeKind::UInt => [0, 1, u32::MAX, 7].iter().map(|v| DataType::UInt(UInt32(*v))).collect(),
        DataTypeKind::BigUInt => [0, u64::MAX, 1 << 63, 9].iter().map(|v| DataType::BigUInt(UInt64(*v))).collect(),
        DataTypeKind::Float => [0.0f32, -0.0, f32::NAN, f32::INFINITY, 1.5, f32::MIN_POSITIVE].iter().map(|v| DataType::Float(Float32(*v))).collect(),
        DataTypeKind::Double => [0.0f64, -0.0, f64::NAN, f64::NEG_INFINITY, 1.5, f64::MAX].iter().map(|v| DataType::Double(Float64(*v))).collect(),
        _ => vec!["".to_string(), "a".into(), "ab".into(), "x".repeat(300), "é漢🙂".into(), "y".repeat(5000), "ab\0c".into()]
            .into_iter().map(|s| DataType::Blob(Blob::from(s))).collect(),
    }
}

/// bit-exact identity (NaN equals NaN, 0.0 differs from -0.0)
fn same(a: &DataType, b: &DataType) -> bool {
    match (a, b) {
        (DataType::Null, DataType::Null) => true,
        (DataType::Bool(x), DataType::Bool(y)) => x.0 == y.0,
        (DataType::Int(x), DataType::Int(y)) => x.0 == y.0,
        (DataType::BigInt(x), DataType::BigInt(y)) => x.0 == y.0,
        (DataType::UInt(x), DataType::UInt(y)) => x.0 == y.0,
        (DataType::BigUInt(x), DataType::BigUInt(y)) => x.0 == y.0,
        (DataType::Float(x), DataType::Float(y)) => x.0.to_bits() == y.0.to_bits(),
        (DataType::Double(x), DataType::Double(y)) => x.0.to_bits() == y.0.to_bits(),
        (DataType::Blob(x), DataType::Blob(y)) => x.as_ref() == y.as_ref(),
        _ => false,
    }
}

struct RowCtx {
    kinds: Vec<DataTypeKind>, // all columns, keys first
    nk: usize,
    rot: usize,
    keys: Vec<DataType>,
}

impl RowCtx {
    fn nv(&self) -> usize { self.kinds.len() - self.nk }
    fn value(&self, col: usize, id: i64) -> DataType {
        if id == 0 { return DataType::Null; }
        let t = table(self.kinds[self.nk + col]);
        t[(id as usize - 1 + self.rot) % t.len()].clone()
    }
    fn ids_avail(&self, col: usize) -> i64 { table(self.kinds[self.nk + col]).len() as i64 }
    fn id_of(&self, col: usize, v: &DataType) -> i64 {
        if matches!(v, DataType::Null) { return 0; }
        let t = table(self.kinds[self.nk + col]);
        for id in 1..=t.len() { if same(&t[(id - 1 + self.rot) % t.len()], v) { return id as i64; } }
        -1
    }
    fn ids(&self, row: &[DataType]) -> (bool, Vec<i64>) {
        let keys_ok = row.len() == self.kinds.len() && (0..self.nk).all(|i| same(&row[i], &self.keys[i]));
        (keys_ok, (0..self.nv()).map(|c| row.get(self.nk + c).map(|v| self.id_of(c, v)).unwrap_or(-1)).collect())
    }
}

fn snap_of(j: &Value) -> Snap {
    let xmax = j["xmax"].as_u64().unwrap();
    let list = |k: &str| j[k].as_array().map(|a| a.iter().map(|x| x.as_u64().unwrap()).collect::<Vec<u64>>()).unwrap_or_default();
    let active = list("active");
    let xid = j["xid"].as_u64().unwrap();
    let xmin = active.iter().copied().chain(std::iter::once(xid)).min().unwrap();
    Snap { xid, xmin, xmax: if xmax == 0 { None } else { Some(xmax) }, active, aborted: list("aborted") }
}

fn ctx_for(b: usize, nv: usize) -> RowCtx {
    let nk = 1 + b % 3;
    let mut kinds: Vec<DataTypeKind> = (0..nk).map(|i| KINDS[(b / 3 + i * 3) % 8]).collect();
    for c in 0..nv { kinds.push(KINDS[(b / 9 + c * 5 + b) % 8]); }
    let keys = (0..nk).map(|i| { let t = table(kinds[i]); t[(b + i) % t.len()].clone() }).collect();
    RowCtx { kinds, nk, rot: (b / 7) % 5, keys }
}

fn replay(a: &Args) -> i32 {
    if std::env::var("AXV_PANIC").is_err() { std::panic::set_hook(Box::new(|_| {})); }
    let text = std::fs::read_to_string(a.str("in", "")).expect("behaviours");
    let mut lines = text.lines();
    let fam: Value = serde_json::from_str(lines.next().expect("family")).unwrap();
    let family: Vec<Snap> = fam["family"].as_array().unwrap().iter().map(snap_of).collect();
    let mut bad: Vec<Value> = vec![];
    let (mut n, mut decodes, mut nontrivial) = (0usize, 0usize, 0usize);
    let base = a.num("base", 0) as usize;
    for (b, line) in lines.enumerate() {
        let b = b + base;
        let beh: Value = serde_json::from_str(line).unwrap();
        n += 1;
        let res = std::panic::catch_unwind(|| -> Result<(usize, bool), String> {
            let ops = beh["ops"].as_array().unwrap();
            let nv = ops[0]["vals"].as_array().unwrap().len();
            let cx = ctx_for(b, nv);
            let ids = |v: &Value| -> Vec<i64> { v.as_array().unwrap().iter().map(|x| x.as_i64().unwrap()).collect() };
            let mut tup: Option<Tup> = None;
            for (k, op) in ops.iter().enumerate() {
                match op["op"].as_str().unwrap() {
                    "build" => {
                        let mut row = cx.keys.clone();
                        for (c, id) in ids(&op["vals"]).iter().enumerate() { row.push(cx.value(c, *id)); }
                        tup = Some(Tup::build(&cx.kinds, cx.nk, row, op["by"].as_u64().unwrap()).map_err(|e| format!("build: {e}"))?);
                    }
                    "update" => {
                        let vals = ids(&op["vals"]);
                        let ch: Vec<(usize, DataType)> = ids(&op["ch"]).iter().map(|c| (*c as usize - 1, cx.value(*c as usize - 1, vals[*c as usize - 1]))).collect();
                        tup.as_mut().unwrap().update(ch, op["by"].as_u64().unwrap()).map_err(|e| format!("update: {e}"))?;
                    }
                    "delete" => tup.as_mut().unwrap().delete(op["by"].as_u64().unwrap()).map_err(|e| format!("delete: {e}"))?,
                    "trim" => { tup.as_mut().unwrap().trim(op["h"].as_u64().unwrap()).map_err(|e| format!("trim: {e}"))?; }
                    o => return Err(format!("unknown op {o}")),
                }
                if (b + k) % 3 == 0 {
                    let t = tup.as_mut().unwrap();
                    let before = t.bytes();
                    t.reload().map_err(|e| format!("reload: {e}"))?;
                    if t.bytes() != before { return Err("row bytes changed by write + read back".into()); }
                }
            }
            let t = tup.unwrap();
            let last = t.decode_last().map_err(|e| format!("decode_last: {e}"))?;
            let (kok, lids) = cx.ids(&last);
            if !kok || lids != ids(&beh["last"]) { return Err(format!("newest version decodes to {lids:?} (keys intact: {kok}), specification {}", beh["last"])); }
            let expect = beh["expect"].as_array().unwrap();
            let mut nt = false;
            for (i, s) in family.iter().enumerate() {
                let got = t.decode(s).map_err(|e| format!("decode for {s:?}: {e}"))?;
                let want: Option<Vec<i64>> = expect[i].as_array().unwrap().first().map(ids);
                let gids = got.as_ref().map(|r| cx.ids(r));
                let okk = match (&gids, &want) { (None, None) => true, (Some((kok, g)), Some(w)) => *kok && g == w, _ => false };
                if !okk { return Err(format!("snapshot {s:?} decodes {:?}, specification {:?}", gids, want)); }
                if want.as_ref().map(|w| *w != lids).unwrap_or(false) { nt = true; }
            }
            Ok((family.len(), nt))
        });
        match res {
            Ok(Ok((d, nt))) => { decodes += d; if nt { nontrivial += 1; } }
            Ok(Err(w)) => bad.push(json!({"behaviour": beh, "index": b, "what": w})),
            Err(_) => bad.push(json!({"behaviour": beh, "index": b, "what": "tuple code panicked"})),
        }
    }
    let out = a.str("out", "");
    if !out.is_empty() { std::fs::write(&out, serde_json::to_string_pretty(&json!({"family": fam["family"], "first": bad.iter().take(5).collect::<Vec<_>>()})).unwrap()).unwrap(); }
    println!("{}", json!({"behaviours": n, "decodes": decodes, "older_version_decoded": nontrivial, "divergences": bad.len()}));
    0
}

fn rand_snap(r: &mut impl Rng, tids: u64) -> Value {
    // what a coordinator can hand out: xid above xmax, every other id committed / active / aborted / not yet started
    let xid = r.random_range(1..=tids + 1);
    let xmax = if r.random_range(0..8) == 0 { 0 } else { r.random_range(0..xid) };
    let (mut active, mut aborted) = (vec![], vec![]);
    for t in 1..=tids {
        if t == xid { if r.random_bool(0.5) { active.push(t); } continue; }
        match r.random_range(0..5) { 0 => active.push(t), 1 => aborted.push(t), _ => {} }
    }
    json!({"xid": xid, "xmax": xmax, "active": active, "aborted": aborted})
}

fn trace(a: &Args) -> i32 {
    if std::env::var("AXV_PANIC").is_err() { std::panic::set_hook(Box::new(|_| {})); }
    let seed = a.num("seed", 1);
    let rows = a.num("rows", 200);
    let mut t = Trace::create(std::path::Path::new(&a.str("out", "/verif/work/tuple-trace.ndjson")));
    t.lazy = true;
    let mut r = util::rng(seed, 18);
    let (mut decodes, mut older, mut maxchain) = (0u64, 0u64, 0usize);
    let mut panicked: Option<String> = None;
    for b in 0..rows as usize {
        let nv = *[0usize, 1, 2, 3, 5, 8, 9, 12].get(r.random_range(0..8)).unwrap();
        let mut cx = ctx_for(r.random_range(0..10_000), nv);
        cx.rot = r.random_range(0..7);
        let tids = r.random_range(2..=6u64);
        let res = std::panic::catch_unwind(std::panic::AssertUnwindSafe(|| -> Result<(), String> {
            let pick = |r: &mut rand_chacha::ChaCha8Rng, cx: &RowCtx, c: usize| -> i64 { if r.random_range(0..3) == 0 { 0 } else { r.random_range(1..=cx.ids_avail(c)) } };
            let vals: Vec<i64> = (0..nv).map(|c| pick(&mut r, &cx, c)).collect();
            let by = r.random_range(1..=tids);
            let mut row = cx.keys.clone();
            for (c, id) in vals.iter().enumerate() { row.push(cx.value(c, *id)); }
            let mut tup = Tup::build(&cx.kinds, cx.nk, row, by).map_err(|e| format!("build: {e}"))?;
            t.ev(json!({"ev": "build", "vals": vals, "by": by, "nk": cx.nk, "kinds": cx.kinds.iter().map(|k| format!("{k:?}")).collect::<Vec<_>>()}));
            let steps = r.random_range(1..=14);
            let mut updates = 0;
            for _ in 0..steps {
                let k = r.random_range(0..100);
                if k < 45 && nv > 0 && updates < 8 {
                    let mut ch: Vec<usize> = (0..nv).filter(|_| r.random_range(0..3) == 0).collect();
                    if ch.is_empty() { ch.push(r.random_range(0..nv)); }
                    let mut vals = vec![0i64; nv];
                    let mut changes = vec![];
                    for c in &ch { vals[*c] = pick(&mut r, &cx, *c); changes.push((*c, cx.value(*c, vals[*c]))); }
                    let by = r.random_range(1..=tids);
                    tup.update(changes, by).map_err(|e| format!("update: {e}"))?;
                    updates += 1;
                    maxchain = maxchain.max(updates);
                    t.ev(json!({"ev": "update", "ch": ch.iter().map(|c| c + 1).collect::<Vec<_>>(), "vals": vals, "by": by}));
                } else if k < 55 {
                    let by = r.random_range(1..=tids);
                    tup.delete(by).map_err(|e| format!("delete: {e}"))?;
                    t.ev(json!({"ev": "delete", "by": by}));
                } else if k < 60 {
                    tup.clear_delete();
                    t.ev(json!({"ev": "clear"}));
                } else if k < 70 {
                    let h = r.random_range(1..=tids + 1);
                    tup.trim(h).map_err(|e| format!("trim: {e}"))?;
                    t.ev(json!({"ev": "trim", "h": h}));
                } else if k < 78 {
                    let before = tup.bytes();
                    tup.reload().map_err(|e| format!("reload: {e}"))?;
                    t.ev(json!({"ev": "reload", "same_bytes": tup.bytes() == before}));
                }
                for _ in 0..r.random_range(1..4) {
                    let sj = rand_snap(&mut r, tids);
                    let got = tup.decode(&snap_of(&sj)).map_err(|e| format!("decode: {e}"))?;
                    decodes += 1;
                    let (kok, out) = match &got { None => (true, json!([])), Some(row) => { let (k, i) = cx.ids(row); (k, json!([i])) } };
                    t.ev(json!({"ev": "decode", "snap": sj, "out": out, "keys_ok": kok}));
                }
                let last = tup.decode_last().map_err(|e| format!("decode_last: {e}"))?;
                let (kok, lids) = cx.ids(&last);
                let h = tup.header();
                t.ev(json!({"ev": "last", "vals": lids, "keys_ok": kok, "xmin": h.0, "xmax": h.1.unwrap_or(0), "ver": h.2}));
                if updates > 0 { older += 1; }
            }
            Ok(())
        }));
        match res {
            Ok(Ok(())) => {}
            Ok(Err(e)) => { t.ev(json!({"ev": "failed", "what": e, "row": b})); panicked = Some(e); break; }
            Err(_) => { t.ev(json!({"ev": "failed", "what": "tuple code panicked", "row": b})); panicked = Some("panic".into()); break; }
        }
    }
    let n = t.finish();
    println!("{}", json!({"events": n, "rows": rows, "decodes": decodes, "states_with_history": older, "longest_chain": maxchain, "failed": panicked}));
    0
}

pub fn main(a: &Args) -> i32 {
    match a.0.first().map(|s| s.as_str()) {
        Some("replay") => replay(a),
        Some("trace") => trace(a),
        _ => { eprintln!("usage: axv tuple replay|trace"); 2 }
    }
}
