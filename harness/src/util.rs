//! Shared helpers: ndjson trace writer, seeded rng, digests, scratch directories.
use rand::SeedableRng;
use rand_chacha::ChaCha8Rng;
use serde_json::Value;
use std::{
    fs::File,
    io::{BufWriter, Write},
    path::{Path, PathBuf},
};

pub struct Trace {
    w: BufWriter<File>,
    pub n: usize,
    /// when set, events are kept in memory (the crash driver inserts crash reads between them before writing)
    pub buf: Option<Vec<Value>>,
    /// pure in-memory drivers (no engine that can abort the process) need not flush per event
    pub lazy: bool,
}

impl Trace {
    pub fn create(path: &Path) -> Self {
        if let Some(p) = path.parent() {
            std::fs::create_dir_all(p).ok();
        }
        Self { w: BufWriter::new(File::create(path).expect("create trace")), n: 0, buf: None, lazy: false }
    }
    pub fn ev(&mut self, v: Value) {
        if let Some(b) = self.buf.as_mut() { b.push(v); self.n += 1; return; }
        serde_json::to_writer(&mut self.w, &v).unwrap();
        self.w.write_all(b"\n").unwrap();
        if !self.lazy { self.w.flush().unwrap(); } // the engine may abort the process: every complete event must already be on disk
        self.n += 1;
    }
    pub fn finish(mut self) -> usize {
        self.w.flush().unwrap();
        self.n
    }
}

pub fn rng(seed: u64, stream: u64) -> ChaCha8Rng {
    let mut r = ChaCha8Rng::seed_from_u64(seed);
    r.set_stream(stream);
    r
}

/// FNV-1a, folded to 31 bits so that TLC (32-bit signed ints) can carry it.
pub fn digest31(parts: &[&[u8]]) -> u32 {
    let mut h: u64 = 0xcbf29ce484222325;
    for p in parts {
        for b in *p {
            h ^= *b as u64;
            h = h.wrapping_mul(0x100000001b3);
        }
        h ^= 0xff;
        h = h.wrapping_mul(0x100000001b3);
    }
    ((h ^ (h >> 31)) & 0x7fff_ffff) as u32
}

pub fn fresh_dir(base: &Path, name: &str) -> PathBuf {
    let d = base.join(name);
    let _ = std::fs::remove_dir_all(&d);
    std::fs::create_dir_all(&d).expect("mkdir");
    d
}

pub struct Args(pub Vec<String>);
impl Args {
    pub fn get(&self, key: &str) -> Option<String> {
        let k = format!("--{key}");
        self.0.iter().position(|a| *a == k).and_then(|i| self.0.get(i + 1).cloned())
    }
    pub fn str(&self, key: &str, default: &str) -> String {
        self.get(key).unwrap_or_else(|| default.to_string())
    }
    pub fn num(&self, key: &str, default: u64) -> u64 {
        self.get(key).map(|v| v.parse().expect("number")).unwrap_or(default)
    }
    pub fn flag(&self, key: &str) -> bool {
        let k = format!("--{key}");
        self.0.iter().any(|a| *a == k)
    }
}
