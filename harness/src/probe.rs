//! Interactive / scripted probe: one command per stdin line (see `help`), prints the outcome as JSON.
use crate::eng::{self, Eng};
use crate::util::Args;
use std::io::BufRead;
use std::path::PathBuf;

pub fn run_line(e: &mut Eng, dbfile: &PathBuf, line: &str) -> Option<eng::Out> {
    let line = line.trim();
    if line.is_empty() || line.starts_with('#') {
        return None;
    }
    let mut it = line.splitn(2, ' ');
    let w = it.next().unwrap();
    let rest = it.next().unwrap_or("").trim();
    let num = |s: &str| s.parse::<u32>().unwrap_or(1);
    Some(match w {
        "create" => {
            let v: Vec<usize> = rest.split_whitespace().filter_map(|x| x.parse().ok()).collect();
            let c = if v.len() == 5 { eng::cfg(v[0], v[1], v[2], v[3], v[4]) } else { eng::default_cfg() };
            let _ = std::fs::remove_dir_all(dbfile.parent().unwrap());
            std::fs::create_dir_all(dbfile.parent().unwrap()).unwrap();
            e.create(dbfile, c)
        }
        "open" => {
            let v: Vec<usize> = rest.split_whitespace().filter_map(|x| x.parse().ok()).collect();
            let c = if v.len() == 5 { eng::cfg(v[0], v[1], v[2], v[3], v[4]) } else { eng::default_cfg() };
            e.open(dbfile, c)
        }
        "close" => e.close(),
        "begin" => e.begin(num(rest)),
        "commit" => e.commit(num(rest)),
        "rollback" => e.rollback(num(rest)),
        "drop" => e.drop_session(num(rest)),
        "flush" => e.flush(),
        "vacuum" => e.vacuum(),
        "audit" => e.audit(),
        "dump" => e.dump(),
        "analyze" => e.analyze(),
        "explain" => e.explain(rest),
        _ => {
            if let Some((s, sql)) = line.split_once(':') {
                if let Ok(n) = s.trim().parse::<u32>() {
                    return Some(e.exec(n, sql.trim()));
                }
            }
            e.exec(0, line)
        }
    })
}

pub fn main(a: &Args) -> i32 {
    eng::install_panic_hook();
    let dir = PathBuf::from(a.str("dir", "/verif/work/probe"));
    let mut dbfile = dir.join("db.axm");
    let mut crashes = 0;
    let mut e = Eng::new();
    e.timeout = std::time::Duration::from_secs(a.num("timeout", 20));
    let stdin = std::io::stdin();
    let copy_dir = dir.with_extension("copy");
    let copy_db = copy_dir.join("db.axm");
    let mut e2 = Eng::new();
    for line in stdin.lock().lines() {
        let line = line.unwrap();
        // `crashcopy`: the files as they are on disk right now, opened by a second engine; `@ <cmd>` talks to it
        if line.trim() == "crashcopy" {
            let _ = e2.close();
            let _ = std::fs::remove_dir_all(&copy_dir);
            std::fs::create_dir_all(&copy_dir).unwrap();
            for f in ["db.axm", "axmos.log"] { let _ = std::fs::copy(dir.join(f), copy_dir.join(f)); }
            let o = e2.open(&copy_db, eng::default_cfg());
            println!("crashcopy\n   => {}", o.json());
            continue;
        }
        // `crashreopen`: the process "dies" - the files as they are on disk are copied, the copy is opened and becomes the database
        if line.trim() == "crashreopen" {
            crashes += 1;
            let nd = dir.join(format!("crash-{crashes}"));
            let _ = std::fs::remove_dir_all(&nd);
            std::fs::create_dir_all(&nd).unwrap();
            let _ = std::fs::copy(&dbfile, nd.join("db.axm"));
            let _ = std::fs::copy(dbfile.parent().unwrap().join("axmos.log"), nd.join("axmos.log"));
            let _ = e.close();
            dbfile = nd.join("db.axm");
            let o = e.open(&dbfile, eng::default_cfg());
            println!("crashreopen\n   => {}", o.json());
            continue;
        }
        if let Some(rest) = line.trim().strip_prefix("@ ") {
            if let Some(o) = run_line(&mut e2, &copy_db, rest) { println!("{line}\n   => {}", match &o { eng::Out::Rows(r) => format!("rows {}", r.iter().map(|row| format!("({})", row.iter().map(|v| if v["t"] == "n" { "NULL".to_string() } else { v["v"].to_string() }).collect::<Vec<_>>().join(","))).collect::<Vec<_>>().join(" ")), _ => o.json().to_string() }); }
            continue;
        }
        if let Some(o) = run_line(&mut e, &dbfile, &line) {
            let j = o.json();
            let s = match &o {
                eng::Out::Rows(r) => format!("rows {}", r.iter().map(|row| format!("({})", row.iter().map(|v| match v["t"].as_str().unwrap() { "n" => "NULL".to_string(), _ => v["v"].to_string() }).collect::<Vec<_>>().join(","))).collect::<Vec<_>>().join(" ")),
                _ => j.to_string(),
            };
            println!("{line}\n   => {s}");
            if matches!(o, eng::Out::Hang) {
                println!("HANG - giving up");
                std::process::exit(3);
            }
        }
    }
    let _ = e.close();
    if !a.flag("keep") {
        let _ = std::fs::remove_dir_all(&dir);
    }
    0
}


/// `axv soak`: one table that does not fit the cache, scanned again and again (C12 C16).  Every scan evicts most of the cache;
/// the answer must stay the same and no scan may panic or hang, however many evictions have happened (Cache.tla: a read
/// returns the last value written after any number of Evict / Load steps).
pub fn soak(a: &Args) -> i32 {
    eng::install_panic_hook();
    let dir = PathBuf::from(a.str("dir", "/verif/work/soak"));
    let scans = a.num("scans", 1500);
    let cache = a.num("cache", 16) as usize;
    let rows = a.num("rows", 400);
    let _ = std::fs::remove_dir_all(&dir);
    std::fs::create_dir_all(&dir).unwrap();
    let mut e = Eng::new();
    let mut bad: Vec<String> = vec![];
    let ok = |o: &eng::Out| !matches!(o, eng::Out::Panic(_) | eng::Out::Hang | eng::Out::Err { .. });
    let mut note = |what: &str, o: &eng::Out, bad: &mut Vec<String>| { if bad.len() < 5 { bad.push(format!("{what}: {}", o.json())); } };
    let o = e.create(&dir.join("db.axm"), eng::cfg(4096, cache, 2, 3, 2));
    if !ok(&o) { note("create", &o, &mut bad); }
    let o = e.exec(0, "CREATE TABLE a (id INT, v TEXT)");
    if !ok(&o) { note("create table", &o, &mut bad); }
    let fat = "y".repeat(150);
    for b in 0..rows / 10 {
        let vals: Vec<String> = (0..10).map(|i| format!("({}, '{}')", b * 10 + i, fat)).collect();
        let o = e.exec(0, &format!("INSERT INTO a VALUES {}", vals.join(", ")));
        if !ok(&o) { note("insert", &o, &mut bad); }
    }
    let q = "SELECT COUNT(*), MIN(a.id), MAX(a.id) FROM a";
    let first = e.exec(0, q);
    if !ok(&first) { note("first scan", &first, &mut bad); }
    let (mut done, mut differing) = (0u64, 0u64);
    // at least `scans` scans, and enough of them to push the number of evictions past `min-evictions` (16-bit counters wrap at 65536)
    let pages_now = std::fs::metadata(dir.join("db.axm")).map(|m| m.len() / 4096).unwrap_or(0);
    let per_scan = pages_now.saturating_sub(cache as u64).max(1);
    let scans = scans.max(a.num("min-evictions", 70000).div_ceil(per_scan)).min(40000);
    for i in 0..scans {
        let o = e.exec(0, q);
        done += 1;
        if o.json() != first.json() { differing += 1; note(&format!("scan {i}"), &o, &mut bad); if differing > 20 { break; } }
    }
    let pages = std::fs::metadata(dir.join("db.axm")).map(|m| m.len() / 4096).unwrap_or(0);
    let _ = e.close();
    // pressure: caches smaller than what one statement pins.  Such a statement may fail ("out of memory" - finding
    // SmallCacheFailsStatements), but it must come back: no hang in the eviction sweep, no panic, and the database still answers.
    let mut pressure_calls = 0u64;
    for tiny in [1usize, 2, 3, 5, 6, 7, 8] {
        let pdir = dir.join(format!("p{tiny}"));
        let _ = std::fs::create_dir_all(&pdir);
        let mut e = Eng::new();
        e.timeout = std::time::Duration::from_secs(20);
        let returned = |o: &eng::Out| !matches!(o, eng::Out::Panic(_) | eng::Out::Hang);
        let o = e.create(&pdir.join("db.axm"), eng::cfg(4096, tiny, 2, 3, 2));
        if !returned(&o) { note(&format!("cache {tiny}: create"), &o, &mut bad); continue; }
        let o = e.exec(0, "CREATE TABLE a (id INT, v TEXT)");
        if !returned(&o) { note(&format!("cache {tiny}: create table"), &o, &mut bad); continue; }
        for i in 0..160 {
            let o = e.exec(0, &format!("INSERT INTO a VALUES ({i}, '{}')", "z".repeat(200)));
            pressure_calls += 1;
            if !returned(&o) { note(&format!("cache {tiny}: insert {i}"), &o, &mut bad); break; }
        }
        if !e.dead {
            let o = e.exec(0, "SELECT COUNT(*) FROM a");
            pressure_calls += 1;
            if !returned(&o) { note(&format!("cache {tiny}: count"), &o, &mut bad); }
            let _ = e.close();
        }
    }
    let _ = std::fs::remove_dir_all(&dir);
    println!("{}", serde_json::json!({"kind": "soak", "scans": done, "differing": differing, "file_pages": pages, "cache_pages": cache,
        "evictions_at_least": done * pages.saturating_sub(cache as u64), "pressure_calls": pressure_calls, "first": first.json(), "bad": bad}));
    0
}
