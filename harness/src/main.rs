//! axv — conformance harness binding the TLA+ specifications in /verif/spec to AxmosDB.
mod concdrv;
mod crash;
mod dbdrv;
mod eng;
mod probe;
mod runner;
mod sqlgen;
mod util;
mod audit;
mod pagesdrv;
mod treedrv;
mod tuple;
mod valuesdrv;
mod wal;
mod wire;

fn main() {
    let args: Vec<String> = std::env::args().skip(1).collect();
    if args.is_empty() {
        eprintln!("usage: axv <driver> ...");
        std::process::exit(2);
    }
    let rest = util::Args(args[1..].to_vec());
    let code = match args[0].as_str() {
        "wal" => wal::main(&rest),
        "conc" => concdrv::main(&rest),
        "values" => valuesdrv::main(&rest),
        "tree" => treedrv::main(&rest),
        "pages" => pagesdrv::main(&rest),
        "tuple" => tuple::main(&rest),
        "wire" => wire::main(&rest),
        "probe" => probe::main(&rest),
        "soak" => probe::soak(&rest),
        "db" => dbdrv::main(&rest),
        "crash" => crash::main(&rest),
        "reopen-child" => crash::child(&rest),
        other => {
            eprintln!("unknown driver {other}");
            2
        }
    };
    std::process::exit(code);
}
