//! Engine wrapper used by every SQL-level driver: one engine thread owns the Database and its
//! Sessions; callers talk to it through a channel and wait under a watchdog, so a hang inside the
//! engine becomes an observable outcome instead of a stuck harness.  Panics are recorded by a
//! process-wide hook (location = call-site signature).
use axmosdb::{DBConfig, Database, DataType, runtime::QueryResult, tcp::session::Session};
use serde_json::{Value, json};
use std::{
    collections::HashMap,
    path::{Path, PathBuf},
    sync::{Mutex, mpsc},
    time::Duration,
};

pub static LAST_PANIC: Mutex<Option<String>> = Mutex::new(None);
pub static PANIC_COUNT: std::sync::atomic::AtomicUsize = std::sync::atomic::AtomicUsize::new(0);

/// signatures ("file|message prefix") of panics that are recorded findings; loaded from $AXV_KNOWN_PANICS (one per line)
pub static KNOWN_PANICS: Mutex<Vec<String>> = Mutex::new(Vec::new());
pub static KNOWN_PANIC_HITS: Mutex<Vec<String>> = Mutex::new(Vec::new());

pub fn install_panic_hook() {
    if let Ok(p) = std::env::var("AXV_KNOWN_PANICS") {
        if let Ok(t) = std::fs::read_to_string(p) {
            *KNOWN_PANICS.lock().unwrap() = t.lines().map(|l| l.trim().to_string()).filter(|l| !l.is_empty()).collect();
        }
    }
    std::panic::set_hook(Box::new(|info| {
        let file = info.location().map(|l| l.file().rsplit("src/").next().unwrap_or(l.file()).to_string()).unwrap_or_default();
        let line = info.location().map(|l| l.line()).unwrap_or(0);
        let msg = if let Some(s) = info.payload().downcast_ref::<&str>() { s.to_string() } else if let Some(s) = info.payload().downcast_ref::<String>() { s.clone() } else { String::new() };
        // signature without line numbers (they move when unrelated code is edited) and without variable parts
        let head: String = msg.chars().take_while(|c| !c.is_ascii_digit()).take(60).collect();
        let sig = format!("{}|{}", file, head.trim());
        if std::env::var("AXV_PANIC_VERBOSE").is_ok() { eprintln!("PANIC {info}\n{}", std::backtrace::Backtrace::force_capture()); }
        *LAST_PANIC.lock().unwrap() = Some(format!("{sig}|{line}"));
        PANIC_COUNT.fetch_add(1, std::sync::atomic::Ordering::SeqCst);
    }));
}

/// a contained panic whose signature is a recorded finding is reported as an error outcome (with the signature)
fn panic_out(sig_line: String) -> Out {
    let sig = sig_line.rsplitn(2, '|').nth(1).unwrap_or("").to_string();
    if KNOWN_PANICS.lock().unwrap().iter().any(|k| *k == sig) {
        KNOWN_PANIC_HITS.lock().unwrap().push(sig.clone());
        Out::Err { class: "panic_known".into(), text: sig }
    } else {
        Out::Panic(sig_line)
    }
}

/// A SQL value as the trace carries it.
pub fn val(d: &DataType) -> Value {
    match d {
        DataType::Null => json!({"t": "n"}),
        DataType::Bool(b) => json!({"t": "b", "v": b.0}),
        DataType::Int(i) => json!({"t": "i", "v": i.0}),
        DataType::BigInt(i) => json!({"t": "i", "v": i.0}),
        DataType::UInt(i) => json!({"t": "i", "v": i.0}),
        DataType::BigUInt(i) => json!({"t": "i", "v": i.0}),
        DataType::Float(f) => fval(f.0 as f64),
        DataType::Double(f) => fval(f.0),
        DataType::Blob(b) => json!({"t": "s", "v": b.to_string_lossy_unchecked()}),
    }
}

/// doubles that are multiples of 1/2 are carried exactly as twice their value; anything else as text
fn fval(f: f64) -> Value {
    let t = f * 2.0;
    if t.is_finite() && t.fract() == 0.0 && t.abs() < 1.0e9 {
        json!({"t": "f", "v": t as i64})
    } else {
        // not a multiple of 1/2: opaque to the specification, but `fl` = floor(2f) still places it in the order
        if t.is_finite() && t.abs() < 1.0e9 {
            json!({"t": "x", "v": format!("{f:?}"), "fl": t.floor() as i64})
        } else {
            json!({"t": "x", "v": format!("{f:?}")})
        }
    }
}

#[derive(Debug, Clone)]
pub enum Out {
    Rows(Vec<Vec<Value>>),
    Count(u64),
    Ddl,
    Unit,
    Info(Value),
    Err { class: String, text: String },
    Panic(String),
    Hang,
}

impl Out {
    pub fn json(&self) -> Value {
        match self {
            Out::Rows(r) => json!({"k": "rows", "rows": r}),
            Out::Count(n) => json!({"k": "count", "n": n}),
            Out::Ddl => json!({"k": "ddl"}),
            Out::Unit => json!({"k": "unit"}),
            Out::Info(v) => json!({"k": "info", "v": v}),
            Out::Err { class, text } => json!({"k": "err", "class": class, "text": text}),
            Out::Panic(loc) => json!({"k": "panic", "at": loc}),
            Out::Hang => json!({"k": "hang"}),
        }
    }
    pub fn is_ok(&self) -> bool {
        matches!(self, Out::Rows(_) | Out::Count(_) | Out::Ddl | Out::Unit | Out::Info(_))
    }
    pub fn is_err(&self) -> bool {
        matches!(self, Out::Err { .. })
    }
}

pub fn classify(text: &str) -> String {
    let t = text.to_lowercase();
    let c = if t.contains("unique constraint") { "unique" }
    else if t.contains("not null constraint") { "notnull" }
    else if t.contains("write-write") || t.contains("writewriteconflict") || t.contains("conflict") { "conflict" }
    else if t.contains("parse error") || t.contains("parser") { "parse" }
    else if t.contains("binder error") || t.contains("not found") || t.contains("analyzer") || t.contains("already exists") { "bind" }
    else if t.contains("out of memory") { "oom" }
    else if t.contains("channel closed") || t.contains("panicked") { "internal" }
    else if t.contains("type") { "type" }
    else { "other" };
    c.to_string()
}

enum Cmd {
    Create(PathBuf, DBConfig),
    Open(PathBuf, DBConfig),
    Close,            // drop sessions + database (clean close: Drop flushes)
    Exec(u32, String), // 0 = autocommit, n = session n
    Batch(Vec<String>),
    Begin(u32),
    Commit(u32),
    Rollback(u32),
    DropSession(u32),
    Flush,
    Vacuum,
    Analyze,
    Explain(String),
    With(Box<dyn FnOnce(&Database) -> Out + Send>),
}

pub struct Eng {
    tx: mpsc::Sender<(Cmd, mpsc::Sender<Out>)>,
    pub timeout: Duration,
    pub dead: bool,
}

pub fn conv(r: QueryResult) -> Out {
    match r {
        QueryResult::Rows(rows) => Out::Rows(rows.iterrows().map(|r| r.as_slice().iter().map(val).collect()).collect()),
        QueryResult::RowsAffected(n) => Out::Count(n),
        QueryResult::Ddl(_) => Out::Ddl,
    }
}

pub fn err(e: impl std::fmt::Display) -> Out {
    let text = e.to_string();
    Out::Err { class: classify(&text), text }
}

fn guarded(f: impl FnOnce() -> Out) -> Out {
    let before = PANIC_COUNT.load(std::sync::atomic::Ordering::SeqCst);
    let r = std::panic::catch_unwind(std::panic::AssertUnwindSafe(f));
    let after = PANIC_COUNT.load(std::sync::atomic::Ordering::SeqCst);
    match r {
        Err(_) => panic_out(LAST_PANIC.lock().unwrap().clone().unwrap_or_default()),
        Ok(o) => {
            if after != before {
                // a panic happened in a pool worker while this call ran
                panic_out(LAST_PANIC.lock().unwrap().clone().unwrap_or_default())
            } else {
                o
            }
        }
    }
}

impl Eng {
    pub fn new() -> Self {
        let (tx, rx) = mpsc::channel::<(Cmd, mpsc::Sender<Out>)>();
        std::thread::Builder::new().name("engine".into()).stack_size(64 << 20).spawn(move || {
            let mut db: Option<Database> = None;
            let mut sessions: HashMap<u32, Session> = HashMap::new();
            while let Ok((cmd, reply)) = rx.recv() {
                let out = guarded(|| match cmd {
                    Cmd::Create(p, c) => { sessions.clear(); db = None; match Database::create(&p, c) { Ok(d) => { db = Some(d); Out::Unit } Err(e) => err(e) } }
                    Cmd::Open(p, c) => { sessions.clear(); db = None; match Database::open(&p, c) { Ok(d) => { db = Some(d); Out::Unit } Err(e) => err(e) } }
                    Cmd::Close => { sessions.clear(); db = None; Out::Unit }
                    Cmd::Exec(0, sql) => match db.as_ref() { Some(d) => d.execute(&sql).map(conv).unwrap_or_else(err), None => err("no database") },
                    Cmd::Exec(s, sql) => match sessions.get_mut(&s) { Some(x) => x.execute(&sql).map(conv).unwrap_or_else(err), None => err("no session") },
                    Cmd::Batch(v) => match db.as_ref() {
                        Some(d) => { let r: Vec<&str> = v.iter().map(|s| s.as_str()).collect(); d.execute_batch(&r).map(|rs| Out::Count(rs.len() as u64)).unwrap_or_else(err) }
                        None => err("no database"),
                    },
                    Cmd::Begin(s) => match db.as_ref() { Some(d) => match d.session() { Ok(x) => { sessions.insert(s, x); Out::Unit } Err(e) => err(e) }, None => err("no database") },
                    Cmd::Commit(s) => match sessions.get_mut(&s) { Some(x) => x.commit_transaction().map(|_| Out::Unit).unwrap_or_else(err), None => err("no session") },
                    Cmd::Rollback(s) => match sessions.get_mut(&s) { Some(x) => x.abort_transaction().map(|_| Out::Unit).unwrap_or_else(err), None => err("no session") },
                    Cmd::DropSession(s) => { sessions.remove(&s); Out::Unit }
                    Cmd::Flush => match db.as_ref() { Some(d) => d.flush().map(|_| Out::Unit).unwrap_or_else(err), None => err("no database") },
                    Cmd::Vacuum => match db.as_ref() { Some(d) => d.vacuum().map(|_| Out::Unit).unwrap_or_else(err), None => err("no database") },
                    Cmd::Analyze => match db.as_ref() { Some(d) => d.analyze(1.0, 10000).map(|_| Out::Unit).unwrap_or_else(err), None => err("no database") },
                    Cmd::Explain(sql) => match db.as_ref() { Some(d) => d.explain(&sql).map(|s| Out::Rows(vec![vec![json!({"t": "s", "v": s})]])).unwrap_or_else(err), None => err("no database") },
                    Cmd::With(f) => match db.as_ref() { Some(d) => f(d), None => err("no database") },
                });
                let _ = reply.send(out);
            }
        }).expect("spawn engine thread");
        Self { tx, timeout: Duration::from_secs(40), dead: false }
    }

    fn call(&mut self, c: Cmd) -> Out {
        if self.dead {
            return Out::Hang;
        }
        let (rtx, rrx) = mpsc::channel();
        if self.tx.send((c, rtx)).is_err() {
            self.dead = true;
            return Out::Hang;
        }
        match rrx.recv_timeout(self.timeout) {
            Ok(o) => o,
            Err(_) => {
                self.dead = true; // the engine thread is stuck: nothing more can be asked of this engine
                Out::Hang
            }
        }
    }

    pub fn create(&mut self, p: &Path, c: DBConfig) -> Out { self.call(Cmd::Create(p.to_path_buf(), c)) }
    pub fn open(&mut self, p: &Path, c: DBConfig) -> Out { self.call(Cmd::Open(p.to_path_buf(), c)) }
    pub fn close(&mut self) -> Out { self.call(Cmd::Close) }
    pub fn exec(&mut self, s: u32, sql: &str) -> Out { self.call(Cmd::Exec(s, sql.to_string())) }
    pub fn batch(&mut self, v: Vec<String>) -> Out { self.call(Cmd::Batch(v)) }
    pub fn begin(&mut self, s: u32) -> Out { self.call(Cmd::Begin(s)) }
    pub fn commit(&mut self, s: u32) -> Out { self.call(Cmd::Commit(s)) }
    pub fn rollback(&mut self, s: u32) -> Out { self.call(Cmd::Rollback(s)) }
    pub fn drop_session(&mut self, s: u32) -> Out { self.call(Cmd::DropSession(s)) }
    pub fn flush(&mut self) -> Out { self.call(Cmd::Flush) }
    pub fn vacuum(&mut self) -> Out { self.call(Cmd::Vacuum) }
    pub fn analyze(&mut self) -> Out { self.call(Cmd::Analyze) }
    pub fn explain(&mut self, sql: &str) -> Out { self.call(Cmd::Explain(sql.to_string())) }
    pub fn dump(&mut self) -> Out { self.with(|db| Out::Info(crate::audit::dump(db))) }
    pub fn audit(&mut self) -> Out { self.with(|db| Out::Info(crate::audit::run(db))) }
    pub fn with(&mut self, f: impl FnOnce(&Database) -> Out + Send + 'static) -> Out { self.call(Cmd::With(Box::new(f))) }
}

pub fn cfg(page: usize, cache: usize, pool: usize, min_keys: usize, siblings: usize) -> DBConfig {
    DBConfig::new(page, cache, pool, min_keys, siblings)
}

pub fn default_cfg() -> DBConfig {
    cfg(16384, 2000, 2, 3, 2) // 16 KiB pages keep the catalog (meta table) in one page: finding MetaTableSplit
}
