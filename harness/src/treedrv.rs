//! C10 driver: one raw B+tree on a scratch pager (verif::tree facade): seeded operation sequences over every key type and
//! page / min-keys / siblings setting; every result, lookups, scans in both directions and the page graph are recorded and
//! validated by BTreeTrace.tla.  Keys cross into the specification as ranks in the key order (the driver's own typed order:
//! numeric for integers, byte-lexicographic for text, lexicographic for composites), payloads as ids.
use crate::eng;
use crate::util::{self, Args, Trace};
use axmosdb::types::{Blob, DataType, DataTypeKind, Int32, UInt64};
use axmosdb::verif::tree::Tree;
use rand::Rng;
use rand::seq::SliceRandom;
use serde_json::{Value, json};

type R = rand_chacha::ChaCha8Rng;

#[derive(Debug, Clone, PartialEq, Eq, PartialOrd, Ord)]
enum K { U(u64), I(i32), T(Vec<u8>), C(i32, Vec<u8>) }

impl K {
    fn cols(&self) -> Vec<DataType> {
        match self {
            K::U(v) => vec![DataType::BigUInt(UInt64(*v))],
            K::I(v) => vec![DataType::Int(Int32(*v))],
            K::T(b) => vec![DataType::Blob(Blob::from(String::from_utf8_lossy(b).into_owned()))],
            K::C(i, b) => vec![DataType::Int(Int32(*i)), DataType::Blob(Blob::from(String::from_utf8_lossy(b).into_owned()))],
        }
    }
}

fn rand_text(r: &mut R) -> Vec<u8> {
    // keys stay short: a cell whose key and payload exceed the inline limit continues in an overflow chain, and such rows are
    // only exercised in the overflow profile (recorded findings)
    let n = match r.random_range(0..10) { 0 => 0, 1..=5 => r.random_range(1..6), 6..=8 => r.random_range(6..30), _ => r.random_range(30..48) };
    (0..n).map(|_| b"abcxyz"[r.random_range(0..6)]).collect()
}

fn universe(r: &mut R, kind: u32, n: usize) -> (Vec<DataTypeKind>, Vec<K>) {
    let mut ks: Vec<K> = vec![];
    let kinds = match kind {
        0 => { for _ in 0..n { ks.push(K::U(match r.random_range(0..6) { 0 => r.random_range(0..50), 1 => u64::MAX - r.random_range(0..50), 2 => (1u64 << 53) + r.random_range(0..40), _ => r.random::<u64>() })); } ks.push(K::U(0)); ks.push(K::U(u64::MAX)); vec![DataTypeKind::BigUInt] }
        1 => { for _ in 0..n { ks.push(K::I(match r.random_range(0..6) { 0 => r.random_range(-50..50), 1 => i32::MIN + r.random_range(0..50), 2 => i32::MAX - r.random_range(0..50), _ => r.random::<i32>() })); } ks.push(K::I(i32::MIN)); ks.push(K::I(-1)); ks.push(K::I(0)); vec![DataTypeKind::Int] }
        2 => { for _ in 0..n { ks.push(K::T(rand_text(r))); } ks.push(K::T(vec![])); ks.push(K::T(b"a".to_vec())); ks.push(K::T(b"ab".to_vec())); vec![DataTypeKind::Blob] }
        _ => { for _ in 0..n { ks.push(K::C(r.random_range(-3..4), rand_text(r))); } vec![DataTypeKind::Int, DataTypeKind::Blob] }
    };
    ks.sort();
    ks.dedup();
    (kinds, ks)
}

fn payload(id: usize, sizes: &[usize]) -> Vec<u8> {
    let n = sizes[id % sizes.len()];
    vec![b'A' + (id % 26) as u8; n].into_iter().enumerate().map(|(i, b)| if i == 0 { b'0' + (id % 10) as u8 } else { b }).collect()
}

struct Seg<'a> { t: &'a mut Trace, tree: Tree, keys: Vec<K>, nk: usize, sizes: Vec<usize>, npay: usize, failed: Option<String> }

impl<'a> Seg<'a> {
    fn row(&self, k: usize, v: usize) -> Vec<DataType> {
        let mut row = self.keys[k].cols();
        row.push(DataType::Blob(Blob::from(String::from_utf8(payload(v, &self.sizes)).unwrap())));
        row
    }
    fn decode(&self, row: &[DataType]) -> (i64, i64) {
        // (rank of the key, payload id) or -1 when it is not something this segment stored
        let k = self.keys.iter().position(|k| { let c = k.cols(); c.len() == self.nk && row.len() == self.nk + 1 && c.iter().zip(row.iter()).all(|(a, b)| format!("{a:?}") == format!("{b:?}")) }).map(|x| x as i64 + 1).unwrap_or(-1);
        let v = match row.last() { Some(DataType::Blob(b)) => { let s = b.to_string_lossy_unchecked(); (0..self.npay).find(|id| payload(*id, &self.sizes) == s.as_bytes()).map(|x| x as i64).unwrap_or(-1) } _ => -1 };
        (k, v)
    }
    fn outcome(r: &Result<(), String>) -> &'static str {
        match r { Ok(()) => "ok", Err(e) if e.contains("already exists") => "exists", Err(e) if e.contains("does not exist") || e.contains("NonExistent") => "missing", Err(_) => "err" }
    }
    fn op(&mut self, name: &str, k: usize, v: usize) {
        // payloads of size 0 / 1 coincide for several ids: the trace carries the smallest id with these bytes
        let v = (0..self.npay).find(|id| payload(*id, &self.sizes) == payload(v, &self.sizes)).unwrap_or(v);
        let res = std::panic::catch_unwind(std::panic::AssertUnwindSafe(|| match name {
            "insert" => { let row = self.row(k, v); self.tree.insert(row) }
            "update" => { let row = self.row(k, v); self.tree.update(row) }
            "upsert" => { let row = self.row(k, v); self.tree.upsert(row) }
            _ => { let key = self.keys[k].cols(); self.tree.remove(key) }
        }));
        let res = match res { Ok(r) => r, Err(_) => Err("panic".to_string()) };
        let out = Self::outcome(&res);
        self.t.ev(json!({"ev": name, "k": k + 1, "v": v, "out": out, "text": res.as_ref().err().map(|e| e.chars().take(200).collect::<String>()).unwrap_or_default()}));
        if out == "err" { self.failed = Some(res.err().unwrap()); }
    }
    fn search(&mut self, k: usize) {
        let key = self.keys[k].cols();
        let res = std::panic::catch_unwind(std::panic::AssertUnwindSafe(|| self.tree.search(key)));
        match res {
            Ok(Ok(None)) => self.t.ev(json!({"ev": "search", "k": k + 1, "found": false, "v": 0, "kk": 0})),
            Ok(Ok(Some(row))) => { let (kk, v) = self.decode(&row); self.t.ev(json!({"ev": "search", "k": k + 1, "found": true, "v": v, "kk": kk})); }
            Ok(Err(e)) => { self.t.ev(json!({"ev": "search", "k": k + 1, "found": false, "v": -2, "kk": -2, "text": e})); self.failed = Some(e); }
            Err(_) => { self.t.ev(json!({"ev": "search", "k": k + 1, "found": false, "v": -3, "kk": -3, "text": "panic"})); self.failed = Some("panic".into()); }
        }
    }
    fn scan(&mut self, backward: bool) {
        let res = std::panic::catch_unwind(std::panic::AssertUnwindSafe(|| self.tree.scan(backward)));
        match res {
            Ok(Ok(rows)) => { let rs: Vec<Value> = rows.iter().map(|r| { let (k, v) = self.decode(r); json!([k, v]) }).collect(); self.t.ev(json!({"ev": "scan", "backward": backward, "rows": rs, "ok": true})); }
            Ok(Err(e)) => { self.t.ev(json!({"ev": "scan", "backward": backward, "rows": [], "ok": false, "text": e})); self.failed = Some(e); }
            Err(_) => { self.t.ev(json!({"ev": "scan", "backward": backward, "rows": [], "ok": false, "text": "panic"})); self.failed = Some("panic".into()); }
        }
    }
    fn graph(&mut self) -> (usize, usize) {
        let res = std::panic::catch_unwind(std::panic::AssertUnwindSafe(|| self.tree.graph()));
        match res {
            Ok(g) => {
                let nodes: Vec<Value> = g.pages.iter().map(|p| {
                    let keys: Vec<i64> = p.keys.iter().map(|kc| self.keys.iter().position(|k| { let c = k.cols(); c.len() == kc.len() && c.iter().zip(kc.iter()).all(|(a, b)| format!("{a:?}") == format!("{b:?}")) }).map(|x| x as i64 + 1).unwrap_or(-1)).collect();
                    json!({"id": p.id, "leaf": p.leaf, "keys": keys, "kids": p.children, "next": p.next.unwrap_or(0), "prev": p.prev.unwrap_or(0), "slots": p.slots})
                }).collect();
                let height = g.pages.iter().map(|p| p.depth + 1).max().unwrap_or(0);
                let n = nodes.len();
                self.t.ev(json!({"ev": "graph", "root": g.root, "nodes": nodes, "errors": g.errors.iter().take(4).collect::<Vec<_>>(), "nerrors": g.errors.len(), "chains": g.chains.len()}));
                (n, height)
            }
            Err(_) => { self.t.ev(json!({"ev": "graph", "root": 0, "nodes": [], "errors": ["panic"], "nerrors": 1, "chains": 0})); self.failed = Some("panic".into()); (0, 0) }
        }
    }
}

pub fn main(a: &Args) -> i32 {
    std::panic::set_hook(Box::new(|_| {}));
    let seed = a.num("seed", 1);
    let segs = a.num("segments", 6);
    let ops = a.num("ops", 260) as usize;
    let dir = std::path::PathBuf::from(a.str("dir", "/verif/work/tree-db"));
    let mut t = Trace::create(std::path::Path::new(&a.str("out", "/verif/work/tree.ndjson")));
    let mut r = util::rng(seed, 10);   // events are flushed one by one: the code under test may loop or abort the process
    let (mut nops, mut graphs, mut max_nodes, mut max_height, mut failed_segs, mut chains, mut removed_all) = (0usize, 0usize, 0usize, 0usize, 0usize, 0usize, 0usize);
    for s in 0..segs {
        let _ = std::fs::remove_dir_all(&dir);
        std::fs::create_dir_all(&dir).unwrap();
        let page = *[4096usize, 4096, 8192, 16384].get(r.random_range(0..4)).unwrap();
        let cfg = eng::cfg(page, *[32usize, 200, 2000].get(r.random_range(0..3)).unwrap(), 2, r.random_range(3..9), r.random_range(1..4));
        let kind = (s as u32 + seed as u32) % 4;
        let overflow_profile = r.random_range(0..4) == 0;
        let un = if overflow_profile { r.random_range(20..60) } else if r.random_bool(0.3) { r.random_range(400..900) } else { r.random_range(40..220) };
        let (kinds, keys) = universe(&mut r, kind, un);
        let nk = kinds.len();
        let mut all = kinds.clone();
        all.push(DataTypeKind::Blob);
        // payload size classes: cells that always fit a page comfortably, or (overflow profile) rows that continue in overflow chains
        let sizes: Vec<usize> = if overflow_profile { vec![10, page / 2 + 9, page + 100, 3 * page + 1] } else { if un > 300 { vec![page / 24, page / 16, 200, 60] } else { vec![0, 1, 8, 60, 200, page / 24, page / 16] } };
        let tree = match Tree::create(dir.join("tree.axm"), cfg, &all, nk) { Ok(t) => t, Err(e) => { t.ev(json!({"ev": "reset", "failed": e})); continue; } };
        t.ev(json!({"ev": "reset", "page": page, "min_keys": cfg.min_keys_per_page, "siblings": cfg.num_siblings_per_side, "key_kind": kind, "universe": keys.len(), "overflow_profile": overflow_profile}));
        if std::env::var("AXV_TREE_DEBUG").is_ok() { eprintln!("segment {s} keys {:?} sizes {:?}", keys, sizes); }
        let mut sg = Seg { t: &mut t, tree, keys, nk, sizes, npay: 64, failed: None };
        let n = sg.keys.len();
        let mut present: Vec<usize> = vec![];
        let seg_ops = if overflow_profile { 160 } else if un > 300 { ops * 4 } else { ops };
        // phases: grow (mostly inserts, in one of several orders), churn, shrink to empty, regrow
        let mut order: Vec<usize> = (0..n).collect();
        match r.random_range(0..4) { 0 => {} 1 => order.reverse(), _ => order.shuffle(&mut r) }
        let mut oi = 0;
        for step in 0..seg_ops {
            if sg.failed.is_some() { break; }
            let phase = (step * 4) / seg_ops;
            let c = r.random_range(0..100);
            let v = r.random_range(0..sg.npay);
            let pick_present = |r: &mut R, p: &Vec<usize>| if p.is_empty() { None } else { Some(p[r.random_range(0..p.len())]) };
            if false {
            } else if (phase == 0 || phase == 3) && c < 70 || c < 25 {
                let k = if c % 5 == 0 { r.random_range(0..n) } else { let k = order[oi % n]; oi += 1; k };
                if c % 7 == 0 { sg.op("upsert", k, v); if sg.failed.is_none() && !present.contains(&k) { present.push(k); } }
                else { let had = present.contains(&k); sg.op("insert", k, v); if sg.failed.is_none() && !had { present.push(k); } }
            } else if c < 45 {
                if let Some(k) = pick_present(&mut r, &present) { sg.op(if c % 2 == 0 { "update" } else { "upsert" }, k, v); } else { sg.op("update", r.random_range(0..n), v); }
            } else if (phase == 2 && c < 95) || c < 65 {
                let k = if c % 6 == 0 { r.random_range(0..n) } else { pick_present(&mut r, &present).unwrap_or(0) };
                sg.op("remove", k, 0);
                if sg.failed.is_none() { present.retain(|x| *x != k); if present.is_empty() { removed_all += 1; } }
            } else if c < 90 { let k = r.random_range(0..n); sg.search(k); }
            else { sg.scan(false); }   // the engine never iterates backwards (into_iter_backward is unused and yields one row)
            nops += 1;
            if sg.failed.is_none() && (step % (if un > 300 { 40 } else { 9 }) == 0 || step + 1 == seg_ops) {
                let (nn, h) = sg.graph();
                graphs += 1; max_nodes = max_nodes.max(nn); max_height = max_height.max(h);
            }
        }
        // hammer: hundreds of in-place rewrites (same size, or shrinking) of a few neighbouring cells, then inserts and growing
        // updates around them - the page's free-space accounting must still be exact when the leaf fills up
        if sg.failed.is_none() && !overflow_profile && !present.is_empty() && r.random_range(0..3) == 0 {
            let nsz = sg.sizes.len();
            let mut near: Vec<usize> = present.clone();
            near.sort();
            let at = r.random_range(0..near.len());
            let near: Vec<usize> = near.into_iter().skip(at.saturating_sub(3)).take(6).collect();
            let v0 = r.random_range(0..nsz);
            for j in 0..r.random_range(400..700) {
                if sg.failed.is_some() { break; }
                let k = near[j % near.len()];
                let v = (v0 + nsz * (j % (sg.npay / nsz).max(1))) % sg.npay;   // another payload of the same size class
                sg.op(if j % 3 == 0 { "upsert" } else { "update" }, k, v); nops += 1;
            }
            if sg.failed.is_none() { sg.graph(); graphs += 1; }
            let lo = *near.first().unwrap();
            let hi = (*near.last().unwrap() + 40).min(n - 1);
            for k in lo.saturating_sub(40)..=hi {
                if sg.failed.is_some() { break; }
                let v = r.random_range(0..sg.npay);
                if present.contains(&k) { sg.op("update", k, v); } else { sg.op("insert", k, v); if sg.failed.is_none() { present.push(k); } }
                nops += 1;
            }
            if sg.failed.is_none() { sg.scan(false); sg.graph(); graphs += 1; }
        }
        // delete everything, then insert again
        if sg.failed.is_none() && r.random_bool(0.5) {
            present.shuffle(&mut r);
            for (i, k) in present.clone().into_iter().enumerate() {
                if sg.failed.is_some() { break; }
                sg.op("remove", k, 0); nops += 1;
                if i % 25 == 0 && sg.failed.is_none() { sg.graph(); graphs += 1; }
            }
            present.clear();
            if sg.failed.is_none() { removed_all += 1; sg.scan(false); sg.graph(); }
            for _ in 0..30 { if sg.failed.is_some() { break; } let k = r.random_range(0..n); let v = r.random_range(0..sg.npay); sg.op("upsert", k, v); nops += 1; }
        }
        if sg.failed.is_none() { sg.scan(false); let (nn, h) = sg.graph(); max_nodes = max_nodes.max(nn); max_height = max_height.max(h); chains += 1; }
        if let Some(e) = sg.failed.take() { failed_segs += 1; sg.t.ev(json!({"ev": "abandon", "why": e.chars().take(200).collect::<String>()})); }
        else if overflow_profile { let rr = sg.tree.dealloc(); sg.t.ev(json!({"ev": "dealloc", "ok": rr.is_ok(), "text": rr.err().unwrap_or_default()})); }
    }
    let _ = std::fs::remove_dir_all(&dir);
    let n = t.finish();
    println!("{}", json!({"events": n, "segments": segs, "ops": nops, "graphs": graphs, "max_nodes": max_nodes, "max_height": max_height, "failed_segments": failed_segs, "emptied": removed_all, "ok_segments": chains}));
    0
}
