//! C17 driver: the write-ahead log through the facade.
//!   wal caps                      print capacities as JSON
//!   wal replay --in F --dir D     replay TLC-generated behaviours (spec -> impl), report divergences
//!   wal trace --seed S --out F    seeded random workload, ndjson trace for WalTrace.tla (impl -> spec)
use crate::util::{self, Args, Trace};
use axmosdb::verif::wal::{Rec, Wal};
use rand::Rng;
use serde_json::{Value, json};
use std::path::{Path, PathBuf};

fn hdr_size() -> usize {
    Wal::record_size(0, 0)
}

pub fn caps(dir: &Path) -> (usize, usize, usize) {
    let d = util::fresh_dir(dir, "caps");
    let mut w = Wal::create(d.join("axmos.log")).expect("create wal");
    let c = w.caps();
    w.forget();
    c
}

/// payload lengths (undo, redo) whose record has exactly `total` bytes (total must be 8-aligned, >= header)
fn payload_for(total: usize) -> (usize, usize) {
    let p = total - hdr_size();
    let undo = (p / 2).min(65535);
    (undo, p - undo)
}

struct Pushed {
    lsn: u64,
    tid: u64,
    kind: u8,
    oid: Option<u64>,
    rid: Option<u64>,
    prev: Option<u64>,
    undo: Vec<u8>,
    redo: Vec<u8>,
    size: usize,
}

fn tag_of(tid: u64, kind: u8, oid: Option<u64>, rid: Option<u64>, prev: Option<u64>, undo: &[u8], redo: &[u8]) -> u32 {
    let o = format!("{tid}|{kind}|{oid:?}|{rid:?}|{prev:?}|{}|{}", undo.len(), redo.len());
    util::digest31(&[o.as_bytes(), undo, redo])
}

fn rec_json(r: &Rec) -> Value {
    json!({"lsn": r.lsn, "size": r.total_size,
           "tag": tag_of(r.tid, r.kind, r.object_id, r.row_id, r.prev_lsn, &r.undo, &r.redo)})
}

const KINDS: [u8; 10] = [0, 1, 2, 3, 6, 7, 8, 9, 10, 11];

fn fill(rng: &mut impl Rng, n: usize) -> Vec<u8> {
    let mut v = vec![0u8; n];
    // cheap but position dependent, so that misplaced bytes change the digest
    let a: u8 = rng.random();
    for (i, b) in v.iter_mut().enumerate() {
        *b = a.wrapping_add((i as u8).wrapping_mul(31)) ^ ((i >> 8) as u8);
    }
    v
}

fn push_sized(w: &mut Wal, rng: &mut impl Rng, total: usize, prev: Option<u64>) -> Result<Pushed, String> {
    let (ul, rl) = payload_for(total);
    let undo = fill(rng, ul);
    let redo = fill(rng, rl);
    let tid: u64 = rng.random_range(1..1000);
    let kind = KINDS[rng.random_range(0..KINDS.len())];
    let oid = if rng.random_bool(0.5) { Some(rng.random_range(1..50u64)) } else { None };
    let rid = if rng.random_bool(0.5) { Some(rng.random_range(0..100000u64)) } else { None };
    let lsn = w.push(tid, kind, oid, rid, prev, &undo, &redo).map_err(|e| e.to_string())?;
    Ok(Pushed { lsn, tid, kind, oid, rid, prev, undo, redo, size: total })
}

fn same(p: &Pushed, r: &Rec) -> bool {
    p.lsn == r.lsn && p.tid == r.tid && p.kind == r.kind && p.oid == r.object_id && p.rid == r.row_id
        && p.prev == r.prev_lsn && p.undo == r.undo && p.redo == r.redo && p.size == r.total_size
}

/// spec -> impl: each input line is {"id":n,"ops":[{"op":"push","size":S,"tag":T}|{"op":"force"|"truncate"|"crash"|"close","expect":[tags...]}]}
fn replay(a: &Args) -> i32 {
    let input = a.str("in", "");
    let dir = PathBuf::from(a.str("dir", "/verif/work/wal-replay"));
    let threads = a.num("threads", 8) as usize;
    let out = a.str("out", "");
    let lines: Vec<String> = std::fs::read_to_string(&input).expect("read behaviours").lines().map(String::from).collect();
    let lines = std::sync::Arc::new(lines);
    let mut handles = vec![];
    for t in 0..threads {
        let lines = lines.clone();
        let dir = dir.clone();
        handles.push(std::thread::spawn(move || {
            let mut bad: Vec<Value> = vec![];
            let mut nops = 0usize;
            let mut reads = 0usize;
            let mut rng = util::rng(7, t as u64);
            for (i, line) in lines.iter().enumerate() {
                if i % threads != t {
                    continue;
                }
                let b: Value = serde_json::from_str(line).expect("json");
                let d = util::fresh_dir(&dir, &format!("t{t}"));
                let path = d.join("axmos.log");
                let res = std::panic::catch_unwind(std::panic::AssertUnwindSafe(|| {
                    let mut w = Wal::create(&path).map_err(|e| format!("create: {e}"))?;
                    let mut pushed: std::collections::HashMap<u64, Pushed> = Default::default();
                    let mut last: Option<u64> = None;
                    for (step, op) in b["ops"].as_array().unwrap().iter().enumerate() {
                        nops += 1;
                        let name = op["op"].as_str().unwrap();
                        match name {
                            "push" => {
                                let p = push_sized(&mut w, &mut rng, op["size"].as_u64().unwrap() as usize, last)
                                    .map_err(|e| format!("step {step}: push failed: {e}"))?;
                                last = Some(p.lsn);
                                pushed.insert(op["tag"].as_u64().unwrap(), p);
                            }
                            "force" => w.force().map_err(|e| format!("step {step}: force: {e}"))?,
                            "truncate" => w.truncate().map_err(|e| format!("step {step}: truncate: {e}"))?,
                            "crash" => {
                                w.forget();
                                w = Wal::open(&path).map_err(|e| format!("step {step}: open after crash: {e}"))?;
                            }
                            "close" => {
                                drop(w);
                                w = Wal::open(&path).map_err(|e| format!("step {step}: open after close: {e}"))?;
                            }
                            _ => return Err(format!("unknown op {name}")),
                        }
                        if let Some(exp) = op.get("expect").and_then(|e| e.as_array()) {
                            let ra = [1usize, 2, 4][(i + step) % 3];
                            let got = w.read_all(ra).map_err(|e| format!("step {step}: read: {e}"))?;
                            reads += 1;
                            let ok = got.len() == exp.len()
                                && got.iter().zip(exp.iter()).all(|(g, e)| pushed.get(&e.as_u64().unwrap()).map(|p| same(p, g)).unwrap_or(false))
                                && got.windows(2).all(|x| x[0].lsn < x[1].lsn);
                            if !ok {
                                return Err(format!(
                                    "step {step} ({name}): read-back (read-ahead {ra}) returned lsns {:?} sizes {:?}, expected records {:?}",
                                    got.iter().map(|r| r.lsn).collect::<Vec<_>>(),
                                    got.iter().map(|r| r.total_size).collect::<Vec<_>>(),
                                    exp
                                ));
                            }
                        }
                    }
                    w.forget();
                    Ok::<(), String>(())
                }));
                match res {
                    Ok(Ok(())) => {}
                    Ok(Err(e)) => bad.push(json!({"behaviour": b, "what": e})),
                    Err(_) => bad.push(json!({"behaviour": b, "what": "panic"})),
                }
            }
            (bad, nops, reads)
        }));
    }
    let mut bad = vec![];
    let (mut nops, mut reads) = (0, 0);
    for h in handles {
        let (b, n, r) = h.join().unwrap();
        bad.extend(b);
        nops += n;
        reads += r;
    }
    let _ = std::fs::remove_dir_all(&dir);
    let summary = json!({"behaviours": lines.len(), "ops": nops, "reads": reads, "divergences": bad.len(),
                         "first": bad.iter().take(5).collect::<Vec<_>>()});
    if !out.is_empty() {
        std::fs::write(&out, serde_json::to_string_pretty(&summary).unwrap()).unwrap();
    }
    println!("{}", serde_json::to_string(&json!({"behaviours": lines.len(), "ops": nops, "reads": reads, "divergences": bad.len()})).unwrap());
    0
}

/// impl -> spec: seeded random segments; every segment starts with `reset`.
fn trace(a: &Args) -> i32 {
    let seed = a.num("seed", 1);
    let segments = a.num("segments", 40);
    let maxops = a.num("ops", 60);
    let dir = PathBuf::from(a.str("dir", "/verif/work/wal-trace"));
    let mut t = Trace::create(Path::new(&a.str("out", "/verif/work/wal-trace.ndjson")));
    let (cap0, cap, block) = caps(&dir);
    let h = hdr_size();
    let maxrec = cap / 8 * 8;
    let mut rng = util::rng(seed, 0);
    let mut stats = json!({"segments": segments, "pushes": 0, "forces": 0, "crashes": 0, "closes": 0, "truncates": 0, "reads": 0, "multi_block_segments": 0});
    let mut bump = |s: &mut Value, k: &str| s[k] = json!(s[k].as_u64().unwrap() + 1);
    for seg in 0..segments {
        let d = util::fresh_dir(&dir, "seg");
        let path = d.join("axmos.log");
        let mut w = Wal::create(&path).expect("create");
        t.ev(json!({"ev": "reset", "cap0": cap0, "cap": cap, "block": block, "hdr": h}));
        // size profile of this segment
        let profile = rng.random_range(0..5);
        let mut last: Option<u64> = None;
        let mut disk_ok = false;
        let mut bytes_since_trunc = 0usize;
        let mut multi = false;
        let nops = rng.random_range(5..=maxops);
        for _ in 0..nops {
            let c = rng.random_range(0..100);
            if c < 62 {
                let total = match profile {
                    0 => h + 8 * rng.random_range(0..8usize),                         // tiny
                    1 => h + 8 * rng.random_range(0..(maxrec - h) / 8 + 1),            // uniform up to the maximum
                    2 => [h, maxrec, maxrec - 8, cap0 / 8 * 8, (cap0 / 8 * 8).saturating_sub(8).max(h), maxrec / 2, maxrec / 2 + 8][rng.random_range(0..7usize)],
                    3 => if rng.random_bool(0.8) { h + 8 * rng.random_range(0..64usize) } else { maxrec - 8 * rng.random_range(0..4usize) },
                    _ => (maxrec / 4 + 8 * rng.random_range(0..16usize)) / 8 * 8,
                };
                let total = if rng.random_range(0..200) == 0 { maxrec + 8 } else { total.clamp(h, maxrec) };
                if total > maxrec && total - h > 2 * 65535 { continue; }
                match push_sized(&mut w, &mut rng, total, last) {
                    Ok(p) => {
                        last = Some(p.lsn);
                        bytes_since_trunc += total;
                        if bytes_since_trunc > cap0 + cap { multi = true; }
                        t.ev(json!({"ev": "push", "ok": true, "lsn": p.lsn, "size": total,
                                    "tag": tag_of(p.tid, p.kind, p.oid, p.rid, p.prev, &p.undo, &p.redo)}));
                    }
                    Err(e) => t.ev(json!({"ev": "push", "ok": false, "size": total, "err": e})),
                }
                bump(&mut stats, "pushes");
                continue;
            }
            let (name, read_after) = if c < 80 {
                match w.force() { Ok(()) => {}, Err(e) => { t.ev(json!({"ev": "force", "ok": false, "err": e.to_string()})); continue; } }
                disk_ok = true;
                bump(&mut stats, "forces");
                ("force", true)
            } else if c < 86 {
                if w.truncate().is_err() { t.ev(json!({"ev": "truncate", "ok": false})); continue; }
                disk_ok = false; last = None; bytes_since_trunc = 0;
                bump(&mut stats, "truncates");
                ("truncate", false)
            } else if c < 93 {
                w.forget();
                match Wal::open(&path) {
                    Ok(x) => w = x,
                    Err(e) => { t.ev(json!({"ev": "crash", "ok": false, "err": e.to_string()})); w = Wal::create(&path).expect("create"); t.ev(json!({"ev": "reset", "cap0": cap0, "cap": cap, "block": block, "hdr": h})); continue; }
                }
                last = None;
                bump(&mut stats, "crashes");
                ("crash", true)
            } else {
                drop(w);
                match Wal::open(&path) {
                    Ok(x) => w = x,
                    Err(e) => { t.ev(json!({"ev": "close", "ok": false, "err": e.to_string()})); w = Wal::create(&path).expect("create"); t.ev(json!({"ev": "reset", "cap0": cap0, "cap": cap, "block": block, "hdr": h})); continue; }
                }
                disk_ok = true;
                bump(&mut stats, "closes");
                ("close", true)
            };
            t.ev(json!({"ev": name, "ok": true}));
            if read_after {
                let ra = [1usize, 2, 3, 4, 8][rng.random_range(0..5usize)];
                match w.read_all(ra) {
                    Ok(recs) => t.ev(json!({"ev": "read", "ok": true, "ra": ra, "recs": recs.iter().map(rec_json).collect::<Vec<_>>()})),
                    Err(e) => t.ev(json!({"ev": "read", "ok": false, "ra": ra, "err": e.to_string()})),
                }
                bump(&mut stats, "reads");
            }
        }
        if multi { bump(&mut stats, "multi_block_segments"); }
        w.forget();
        let _ = seg;
    }
    let n = t.finish();
    let _ = std::fs::remove_dir_all(&dir);
    stats["events"] = json!(n);
    println!("{}", stats);
    0
}

pub fn main(a: &Args) -> i32 {
    match a.0.first().map(|s| s.as_str()) {
        Some("caps") => {
            let (cap0, cap, block) = caps(Path::new(&a.str("dir", "/verif/work/wal-caps")));
            let _ = std::fs::remove_dir_all(a.str("dir", "/verif/work/wal-caps"));
            println!("{}", json!({"cap0": cap0, "cap": cap, "block": block, "hdr": hdr_size()}));
            0
        }
        Some("replay") => replay(a),
        Some("trace") => trace(a),
        _ => {
            eprintln!("usage: axv wal caps|replay|trace");
            2
        }
    }
}
