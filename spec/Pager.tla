-------------------------------- MODULE Pager --------------------------------
(* Page ownership of AxmosDB's pager (io/pager.rs) and of the trees above it (C11).            *)
(*   total - number of pages of the file (ids 0..total-1, page 0 is page zero)                  *)
(*   free  - the free list, head first (allocate_page pops the head, dealloc_page appends)       *)
(*   owner - for every page handed out and not released: the tree (or chain of a tree) it is in  *)
(* One action per pager entry point; trees are only names here (their shape is BTree.tla).       *)
EXTENDS Integers, Sequences, FiniteSets
CONSTANTS MaxPages, Trees, Dev
VARIABLES total, free, owner
pvars == <<total, free, owner>>
Range(s) == {s[i] : i \in 1..Len(s)}
Used == DOMAIN owner
NoTree == "none"            \* handed out, not yet linked into a tree (between allocate_page and the caller's link)

Init == total = 1 /\ free = <<>> /\ owner = << >>

\* allocate_page: the head of the free list if there is one, otherwise the file grows by one page
Alloc(id, reused, t) ==
  /\ IF free # <<>> THEN reused /\ id = Head(free) /\ free' = Tail(free) /\ UNCHANGED total
     ELSE ~reused /\ id = total /\ total' = total + 1 /\ UNCHANGED free
  /\ owner' = [p \in Used \cup {id} |-> IF p = id THEN t ELSE owner[p]]
\* dealloc_page: the page goes to the tail of the free list
Dealloc(id) ==
  /\ id \in Used
  /\ free' = IF "DeallocForgetsTail" \in Dev /\ free # <<>> THEN free ELSE Append(free, id)   \* design mutation: a release that is not linked in
  /\ owner' = [p \in Used \ {id} |-> owner[p]]
  /\ UNCHANGED total
\* a page changes hands between trees only through the pager; DROP releases every page of the tree
DropTree(t) ==
  /\ \E p \in Used : owner[p] = t
  /\ LET ps == {p \in Used : owner[p] = t} IN
       \E order \in [1..Cardinality(ps) -> ps] :
          /\ \A i, j \in 1..Cardinality(ps) : i # j => order[i] # order[j]
          /\ free' = free \o order
  /\ owner' = [p \in {q \in Used : owner[q] # t} |-> owner[p]]
  /\ UNCHANGED total

Next == \/ total < MaxPages /\ \E t \in Trees : Alloc(IF free # <<>> THEN Head(free) ELSE total, free # <<>>, t)
        \/ \E id \in Used : Dealloc(id)
        \/ \E t \in Trees : DropTree(t)
Spec == Init /\ [][Next]_pvars

(* C11: every page other than page zero is exactly one of: owned by exactly one tree, or on the free list *)
Partition == /\ Used \cap Range(free) = {}
             /\ Used \cup Range(free) = 1..(total - 1)
             /\ \A i, j \in 1..Len(free) : i # j => free[i] # free[j]
\* the file grows only when the free list is empty; a released page is the next but |free| to be handed out
ReuseBeforeGrow == [][total' > total => free = <<>>]_pvars
NeverLost == [][\A p \in 1..(total - 1) : p \in Used' \cup Range(free')]_pvars
=============================================================================
