------------------------------ MODULE WalTrace ------------------------------
(* Trace validation for C17 (implementation -> spec): an ndjson trace        *)
(* recorded from the real WriteAheadLog through the facade is accepted iff   *)
(* it is a behaviour of Wal.tla.  Observables bound: the outcome of push     *)
(* (refused iff the record cannot fit a block), the LSN handed out (strictly *)
(* increasing within what can be read back), and the exact records every     *)
(* read-back returns.  Block placement is NOT bound: the property does not   *)
(* speak about it.                                                           *)
EXTENDS Naturals, Sequences, FiniteSets, TLC, Json, IOUtils
Rec == ndJsonDeserialize(IOEnv.TRACE)
Cap0T == Rec[1].cap0
CapT  == Rec[1].cap
VARIABLES hdr, cur, queue, flushed, disk, diskOk, nextLsn, appended, forced, l
W == INSTANCE Wal WITH Cap0 <- Cap0T, Cap <- CapT, Dev <- {}
wvars == <<hdr, cur, queue, flushed, disk, diskOk, nextLsn, appended, forced>>
tvars == <<hdr, cur, queue, flushed, disk, diskOk, nextLsn, appended, forced, l>>

TInit == W!Init /\ l = 1
Ev == Rec[l]
Is(name) == l <= Len(Rec) /\ Ev.ev = name
Step == l' = l + 1
Proj(rs) == [i \in 1..Len(rs) |-> [lsn |-> rs[i].lsn, size |-> rs[i].size, tag |-> rs[i].tag]]

TReset    == Is("reset") /\ Step
             /\ hdr' = W!EmptyHdr /\ cur' = W!None /\ queue' = <<>> /\ flushed' = 0
             /\ disk' = [hdr |-> W!EmptyHdr, blk |-> <<>>] /\ diskOk' = FALSE
             /\ nextLsn' = 0 /\ appended' = <<>> /\ forced' = 0
TPushOk   == Is("push") /\ Ev.ok /\ Step
             /\ W!LastLsnOk(Ev.lsn)
             /\ W!Push([lsn |-> Ev.lsn, size |-> Ev.size, tag |-> Ev.tag])
TPushErr  == Is("push") /\ ~Ev.ok /\ Step /\ Ev.size > CapT      \* only a record that fits no block may be refused
             /\ UNCHANGED wvars
TForce    == Is("force") /\ Ev.ok /\ Step /\ W!Force
TTruncate == Is("truncate") /\ Ev.ok /\ Step /\ W!Truncate
TCrash    == Is("crash") /\ Ev.ok /\ Step /\ W!CrashOpen
TClose    == Is("close") /\ Ev.ok /\ Step /\ W!CloseOpen
TRead     == Is("read") /\ Ev.ok /\ Step
             /\ Proj(Ev.recs) = W!ReadBack                      \* exactly what was appended and forced
             /\ UNCHANGED wvars

TNext == TReset \/ TPushOk \/ TPushErr \/ TForce \/ TTruncate \/ TCrash \/ TClose \/ TRead
TSpec == TInit /\ [][TNext]_tvars

Inv == W!ReadBackExact /\ W!LsnIncreasing
Accepted == IF TLCGet("stats").diameter - 1 = Len(Rec) THEN TRUE
            ELSE Print(<<"REJECTED", TLCGet("stats").diameter, Rec[TLCGet("stats").diameter]>>, FALSE)
=============================================================================
