----------------------------- MODULE TupleReplay -----------------------------
(* Behaviour generator for C18: every operation sequence  Build, <= MaxUpd x Update, [Delete], [Trim]  over the small    *)
(* alphabet, printed with what every snapshot of the family must decode (Walk under Dev = the shipped deviations, which *)
(* the model check relates to Entitled).  The harness replays each line through the real tuple code.                     *)
EXTENDS Tuple, Json
VARIABLES hist, phase
rvars == <<vars, hist, phase>>
Fam == LET S == {s \in Snaps : TRUE} IN S
RECURSIVE SetToSeq(_)
SetToSeq(S) == IF S = {} THEN <<>> ELSE LET x == CHOOSE y \in S : TRUE IN <<x>> \o SetToSeq(S \ {x})
FamSeq == SetToSeq(Fam)
SnapJson(s) == [xid |-> s.xid, xmax |-> s.xmax, active |-> SetToSeq(s.active), aborted |-> SetToSeq(s.aborted)]
Vec(f) == [i \in 1..NV |-> f[i]]
RInit == Init /\ hist = <<>> /\ phase = "build"
RNext ==
  \/ /\ phase = "build" /\ \E v \in Vecs, t \in Tid : Build(v, t) /\ hist' = <<[op |-> "build", vals |-> Vec(v), by |-> t]>>
     /\ phase' = "update"
  \/ /\ phase = "update" /\ hver < MaxUpd
     /\ \E ch \in SUBSET Cols \ {{}} : \E nv \in {f \in Vecs : \A i \in Cols \ ch : f[i] = NULL} : \E t \in Tid :
          Update(ch, nv, t) /\ hist' = Append(hist, [op |-> "update", ch |-> SetToSeq(ch), vals |-> Vec(nv), by |-> t])
     /\ phase' = "update"
  \/ /\ phase = "update" /\ \E t \in Tid : Delete(t) /\ hist' = Append(hist, [op |-> "delete", by |-> t]) /\ phase' = "trim"
  \/ /\ phase = "update" /\ phase' = "trim" /\ UNCHANGED <<vars, hist>>
  \/ /\ phase = "trim" /\ \E h \in (Tid \cup {MaxT}) \ {1} : Trim(h) /\ hist' = Append(hist, [op |-> "trim", h |-> h]) /\ phase' = "done"
  \/ /\ phase = "trim" /\ phase' = "done" /\ UNCHANGED <<vars, hist>>
RSpec == RInit /\ [][RNext]_rvars
EmitFamily == (phase = "build") => PrintT(<<"USED", ToJson([family |-> [i \in 1..Len(FamSeq) |-> SnapJson(FamSeq[i])]])>>)
Emit == (phase = "done") => PrintT(<<"REPLAY", ToJson([ops |-> hist, expect |-> [i \in 1..Len(FamSeq) |-> Walk(FamSeq[i])],
                                                        last |-> Vec(head), nver |-> Len(deltas) + 1])>>)
=============================================================================
