SPECIFICATION RSpec
CONSTANTS NV = 2  Val = {1}  Tid = {1, 2}  MaxUpd = 2  Dev = {"UpdateStampsCreator", "OwnDeleteOfUpdatedRow", "DeltaWalkIgnoresOwn", "TrimCutsAtFirstOld"}
INVARIANTS Emit EmitFamily
CHECK_DEADLOCK FALSE
