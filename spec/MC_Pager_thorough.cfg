SPECIFICATION Spec
CONSTANTS MaxPages = 8  Trees = {"a", "b", "c"}  Dev = {}
INVARIANT Partition
PROPERTIES ReuseBeforeGrow NeverLost
CHECK_DEADLOCK FALSE
