SPECIFICATION Spec
CONSTANTS NV = 2  Val = {1}  Tid = {1, 2, 3}  MaxUpd = 2  Dev = {"UpdateStampsCreator", "OwnDeleteOfUpdatedRow", "DeltaWalkIgnoresOwn", "TrimCutsAtFirstOld"}
INVARIANTS TypeOK ChainRefines StampsRefine
ACTION_CONSTRAINTS TrimPreservesWalk
CHECK_DEADLOCK FALSE
