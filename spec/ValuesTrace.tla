------------------------------ MODULE ValuesTrace ------------------------------
(* Trace validation for C19: the engine's answers about a grid of values (every pair: ==, partial_cmp, hash equality;     *)
(* every value: cast to its own type, tuple encode/decode; per column type: what SQL stores and what ORDER BY, DISTINCT    *)
(* and GROUP BY return) must satisfy the laws of Values.tla.                                                               *)
EXTENDS Integers, Sequences, FiniteSets, TLC, Json, IOUtils
CONSTANTS Dev
VARIABLES vals, l, a, b, c
L == INSTANCE Values WITH Ranks <- {}
tvars == <<vals, l, a, b, c>>
Rec == ndJsonDeserialize(IOEnv.TRACE)
Ev(name) == l <= Len(Rec) /\ Rec[l].ev = name /\ l' = l + 1
Keep == UNCHANGED <<a, b, c>>
NullV == [cls |-> "null", ty |-> "null", rank |-> 0, frank |-> 0, nan |-> FALSE, negzero |-> FALSE]
V(id) == IF id = 0 THEN NullV ELSE vals[id]
Of(ids) == [i \in 1..Len(ids) |-> V(ids[i])]

TInit == vals = <<>> /\ l = 1 /\ a = NullV /\ b = NullV /\ c = NullV
TVal == /\ Ev("val") /\ Rec[l].id = Len(vals) + 1 /\ Keep
        /\ vals' = Append(vals, [cls |-> Rec[l].cls, ty |-> Rec[l].ty, rank |-> Rec[l].rank, frank |-> Rec[l].frank, nan |-> Rec[l].nan, negzero |-> Rec[l].negzero])
TPair == /\ Ev("pair") /\ UNCHANGED vals /\ Keep
         /\ LET x == V(Rec[l].a)  y == V(Rec[l].b) IN
              /\ Rec[l].eq = L!Eq(x, y)
              /\ Rec[l].cmp = L!Cmp(x, y)
              /\ L!HashOk(x, y, Rec[l].heq)
\* storing then loading (tuple encode / decode) and a cast to the value's own type return the value unchanged, bit for bit
TRound == Ev("round") /\ Rec[l].cast = TRUE /\ Rec[l].stored = TRUE /\ UNCHANGED vals /\ Keep
\* through SQL: every written value comes back (twice, it was written twice) - under the literal deviation: a value equal to it as a double
SqlSame(x, y) == IF "SqlNumericLiteralViaF64" \in Dev THEN x.cls = y.cls /\ x.frank = y.frank ELSE x.cls = y.cls /\ x.rank = y.rank
TSqlRound == /\ Ev("sqlround") /\ UNCHANGED vals /\ Keep
             /\ (\A i \in DOMAIN Rec[l].read : Rec[l].read[i] >= 0)          \* every value read is one that was written (an id of the grid)
             /\ LET w == Of(Rec[l].written)  r == Of(Rec[l].read) IN
                  /\ \A i \in DOMAIN r : r[i].cls # "null" => \E j \in DOMAIN w : SqlSame(r[i], w[j])
                  /\ \A j \in DOMAIN w : Cardinality({i \in DOMAIN r : SqlSame(r[i], w[j])}) = 2 * Cardinality({k \in DOMAIN w : SqlSame(w[k], w[j])})
                  /\ Cardinality({i \in DOMAIN r : r[i].cls = "null"}) = 1
                  /\ \A i \in DOMAIN Rec[l].read : Rec[l].read[i] >= 0
TSorted == Ev("sorted") /\ (\A i \in DOMAIN Rec[l].ids : Rec[l].ids[i] >= 0) /\ L!InOrder(Of(Rec[l].ids)) /\ UNCHANGED vals /\ Keep
TClasses == /\ Ev("classes") /\ UNCHANGED vals /\ Keep
            /\ (\A i \in DOMAIN Rec[l].ids : Rec[l].ids[i] >= 0)
            /\ LET r == Of(Rec[l].ids) IN
                 /\ \A i, j \in DOMAIN r : i # j => ~L!Eq(r[i], r[j])
                 /\ \A i \in DOMAIN Rec[l].ids : Rec[l].ids[i] >= 0
TNext == TVal \/ TPair \/ TRound \/ TSqlRound \/ TSorted \/ TClasses
TSpec == TInit /\ [][TNext]_tvars
Accepted == IF TLCGet("stats").diameter - 1 = Len(Rec) THEN TRUE
            ELSE Print(<<"REJECTED", TLCGet("stats").diameter, ToJson(Rec[TLCGet("stats").diameter])>>, FALSE)
=============================================================================
