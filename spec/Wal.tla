------------------------------- MODULE Wal -------------------------------
(* Write-ahead log of AxmosDB (io/wal.rs, storage/wal.rs): block zero (file     *)
(* header + first records), data blocks, flush queue, force, truncate, reopen,  *)
(* read-back.  One action per critical section of io/wal.rs.                    *)
(*                                                                              *)
(* Dev names deviations of the code from the ideal design:                      *)
(*   {}                          the design as repaired (fix: d0b4237)          *)
(*   "ForceRewritesFromBlock1"   perform_flush as shipped: queued blocks always *)
(*                               written from block 1, partial block dropped    *)
(*   "LsnFromBlockZero"          last_lsn() as shipped: read from block zero    *)
(* They are kept so that TLC keeps producing the counterexamples (the witnesses *)
(* of the two fixed findings) and the harness can replay them as regressions.   *)
EXTENDS Naturals, Sequences, FiniteSets, TLC
CONSTANTS Cap0,        \* usable bytes of block zero
          Cap,         \* usable bytes of a data block
          Dev          \* set of deviation names

VARIABLES hdr,      \* in-memory block zero: [recs, used, total]  (total = header field total_blocks)
          cur,      \* current (partial) data block: [recs, used] or None
          queue,    \* full data blocks waiting for a force
          flushed,  \* number of complete data blocks on disk
          disk,     \* [hdr |-> header image, blk |-> sequence of block images]
          diskOk,   \* FALSE between set_len(0) and the next header write
          nextLsn,  \* what Pager::push_to_log will hand out next
          appended, \* ghost: records appended since the last truncate
          forced    \* ghost: how many of them were covered by a force
vars == <<hdr, cur, queue, flushed, disk, diskOk, nextLsn, appended, forced>>

None     == [recs |-> <<>>, used |-> 0]
EmptyHdr == [recs |-> <<>>, used |-> 0, total |-> 1]
OldForce == "ForceRewritesFromBlock1" \in Dev
OldLsn   == "LsnFromBlockZero" \in Dev

Init == /\ hdr = EmptyHdr /\ cur = None /\ queue = <<>> /\ flushed = 0
        /\ disk = [hdr |-> EmptyHdr, blk |-> <<>>] /\ diskOk = FALSE    \* a created log has no header on disk before its first force
        /\ nextLsn = 0 /\ appended = <<>> /\ forced = 0

PutIn(b, r) == [b EXCEPT !.recs = Append(@, r), !.used = @ + r.size]
LastLsnOk(lsn) == IF appended = <<>> THEN TRUE ELSE lsn > appended[Len(appended)].lsn

(* io/wal.rs push(): r = [lsn, size, tag]; a record larger than a data block is refused *)
Push(r) ==
  /\ r.size <= Cap
  /\ LET useHdr == /\ cur = None
                   /\ (OldForce \/ (flushed = 0 /\ queue = <<>>))   \* repaired: block zero only while no data block exists
                   /\ Cap0 - hdr.used >= r.size
     IN
     /\ nextLsn' = IF OldLsn /\ ~useHdr THEN nextLsn ELSE r.lsn + 1   \* as shipped the counter only advanced in block zero
     /\ appended' = Append(appended, r)
     /\ IF useHdr
        THEN /\ hdr' = PutIn(hdr, r) /\ UNCHANGED <<cur, queue>>
        ELSE IF Cap - cur.used >= r.size
             THEN /\ cur' = PutIn(cur, r) /\ UNCHANGED <<hdr, queue>>
             ELSE /\ queue' = Append(queue, cur)                     \* rotate_block
                  /\ cur' = PutIn(None, r)
                  /\ UNCHANGED hdr
  /\ UNCHANGED <<flushed, disk, diskOk, forced>>

WriteAt(blk, i, b) == [j \in 1..(IF i > Len(blk) THEN i ELSE Len(blk)) |->
                         IF j = i THEN b ELSE IF j <= Len(blk) THEN blk[j] ELSE None]
RECURSIVE WriteAll(_, _, _)
WriteAll(blk, q, at) == IF q = <<>> THEN blk ELSE WriteAll(WriteAt(blk, at, Head(q)), Tail(q), at + 1)

(* io/wal.rs perform_flush(): what the file holds after the force *)
ForcedDisk ==
  LET base == IF OldForce THEN 0 ELSE flushed
      nq   == Len(queue)
      blk1 == WriteAll(disk.blk, queue, base + 1)
      wcur == cur.used > 0
      blk2 == IF wcur THEN WriteAt(blk1, base + nq + 1, cur) ELSE blk1
      h    == [hdr EXCEPT !.total = 1 + base + nq + (IF wcur THEN 1 ELSE 0)]
  IN [hdr |-> h, blk |-> blk2]

Force ==
  /\ disk' = ForcedDisk
  /\ hdr' = ForcedDisk.hdr
  /\ queue' = <<>>
  /\ flushed' = IF OldForce THEN 0 ELSE flushed + Len(queue)
  /\ cur' = IF OldForce THEN None ELSE cur        \* repaired: the partial block stays and is rewritten in place
  /\ diskOk' = TRUE
  /\ forced' = Len(appended)
  /\ UNCHANGED <<nextLsn, appended>>

(* FileOperations::truncate: set_len(0); the header is rewritten by the next force *)
Truncate ==
  /\ hdr' = EmptyHdr /\ cur' = None /\ queue' = <<>> /\ flushed' = 0
  /\ disk' = [hdr |-> EmptyHdr, blk |-> <<>>] /\ diskOk' = FALSE
  /\ nextLsn' = 0 /\ appended' = <<>> /\ forced' = 0

(* WriteAheadLog::open on the file image d *)
OpenFrom(d) ==
  /\ hdr' = d.hdr /\ cur' = None /\ queue' = <<>>
  /\ flushed' = IF OldForce THEN 0 ELSE d.hdr.total - 1

(* the process dies (no Drop) and the log is opened again *)
CrashOpen ==
  \* also while the file has no header (after create / truncate, before the next force): it opens as an empty log
  /\ OpenFrom(disk)
  /\ nextLsn' = IF forced = 0 THEN 0 ELSE appended[forced].lsn + 1
  /\ appended' = SubSeq(appended, 1, forced)
  /\ diskOk' = TRUE                 \* open writes the header of an empty log back (fix 'header-less log')
  /\ UNCHANGED <<disk, forced>>

(* clean close (Drop forces the log) followed by open *)
CloseOpen ==
  /\ disk' = ForcedDisk /\ diskOk' = TRUE
  /\ OpenFrom(ForcedDisk)
  /\ forced' = Len(appended)
  /\ UNCHANGED <<nextLsn, appended>>

(* WalReader: header records, then data blocks 1 .. total-1 *)
RECURSIVE Cat(_, _, _)
Cat(blk, i, n) == IF i > n THEN <<>> ELSE (IF i <= Len(blk) THEN blk[i].recs ELSE <<>>) \o Cat(blk, i + 1, n)
ReadBack == disk.hdr.recs \o Cat(disk.blk, 1, disk.hdr.total - 1)

(* ------------------------------ properties (C17) ------------------------------ *)
ReadBackExact == diskOk => ReadBack = SubSeq(appended, 1, forced)
LsnIncreasing == \A i \in 1..(Len(ReadBack) - 1) : ReadBack[i].lsn < ReadBack[i + 1].lsn
NoPhantom     == \A i \in 1..Len(ReadBack) : \E j \in 1..Len(appended) : appended[j] = ReadBack[i]
=============================================================================
