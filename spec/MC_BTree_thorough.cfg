SPECIFICATION Spec
CONSTANTS Keys = {1, 2, 3, 4, 5, 6, 7}  Vals = {1, 2}  Cap = 3  Dev = {}
INVARIANT Sound
CHECK_DEADLOCK FALSE
