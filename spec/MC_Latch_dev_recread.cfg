SPECIFICATION Spec
CONSTANTS Threads = {1, 2}  Pages = {1, 2}  Dev = {"RecursiveReadQueuesBehindWriter"}
INVARIANTS Exclusive OnePagerHolder
PROPERTY EveryStatementFinishes
CHECK_DEADLOCK TRUE
