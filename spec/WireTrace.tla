------------------------------ MODULE WireTrace ------------------------------
(* Trace validation for the wire protocol: one event per message that the real  *)
(* code encoded, framed, read back and decoded (seeded shapes up to the 16 MiB  *)
(* frame limit).  The event carries the shape (string lengths, counts) and what *)
(* the code did; the specification computes the encoded length from the shape   *)
(* with the same Enc* definitions as Wire.tla and decides whether the frame     *)
(* writer must accept it.  Payload equality is checked by the driver ("same").  *)
EXTENDS Integers, Sequences, TLC, Json, IOUtils
VARIABLES kind, m, bytes, done
W == INSTANCE Wire
VARIABLE l
Rec == ndJsonDeserialize(IOEnv.TRACE)
tvars == <<kind, m, bytes, done, l>>
\* lengths as Wire.tla's encoders produce them: header 2, every string 4 + bytes, every count 4
LenOf(e) == IF e.kind = "req_str" THEN 2 + 4 + e.slen
            ELSE IF e.kind = "req_analyze" THEN 2 + 16
            ELSE IF e.kind = "req_unit" THEN 2
            ELSE 2 + 4 + e.col_bytes + 4 + e.cell_bytes
Fits(n) == n <= W!MaxFrame
EventOk(e) == /\ e.enc_len = LenOf(e)
              /\ e.same = TRUE
              /\ e.wrote = Fits(e.enc_len)
              /\ e.read = e.wrote
TInit == l = 1 /\ kind = "req" /\ m = [tag |-> 7] /\ bytes = W!EncodeReq([tag |-> 7]) /\ done = FALSE
\* end to end (the real server process over TCP): an answer equals what the in-process database renders for the same statement;
\* a byte string the specification rejects ends the connection or is answered, it never hangs it
SrvOk(e) == IF e.ev = "srv" THEN e.same = TRUE ELSE e.ended = TRUE
TNext == /\ l <= Len(Rec)
         /\ IF Rec[l].ev = "msg" THEN EventOk(Rec[l]) ELSE Rec[l].ev \in {"srv", "garbage"} /\ SrvOk(Rec[l])
         /\ l' = l + 1
         /\ UNCHANGED <<kind, m, bytes, done>>
TSpec == TInit /\ [][TNext]_tvars
Accepted == IF TLCGet("stats").diameter - 1 = Len(Rec) THEN TRUE
            ELSE Print(<<"REJECTED", TLCGet("stats").diameter, ToJson(Rec[TLCGet("stats").diameter])>>, FALSE)
=============================================================================
