SPECIFICATION MCSpec
CONSTANTS
  Cap0 = 3
  Cap = 4
  Sizes = {1, 2, 4}
  MaxRecs = 8
  Dev = {}
INVARIANTS ReadBackExact LsnIncreasing NoPhantom
CHECK_DEADLOCK FALSE
