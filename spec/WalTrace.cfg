SPECIFICATION TSpec
INVARIANT Inv
POSTCONDITION Accepted
CHECK_DEADLOCK FALSE
