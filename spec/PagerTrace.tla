------------------------------ MODULE PagerTrace ------------------------------
(* Trace validation for C11: every allocate_page / dealloc_page of the real pager (hook events, in call order) is an    *)
(* action of Pager.tla, and every whole-file audit taken at a quiescent point (verif::audit: page zero, free-list walk,  *)
(* every tree of the catalog with its nodes and overflow chains) must show exactly the specification's state: same file  *)
(* size, same free list in the same order, and the handed-out pages partitioned among the trees - none lost, none shared.*)
EXTENDS Integers, Sequences, FiniteSets, TLC, Json, IOUtils
CONSTANTS Dev
VARIABLES total, free, owner, l
P == INSTANCE Pager WITH MaxPages <- 0, Trees <- {}
tvars == <<total, free, owner, l>>
Rec == ndJsonDeserialize(IOEnv.TRACE)
Ev(name) == l <= Len(Rec) /\ Rec[l].ev = name /\ l' = l + 1
Same == UNCHANGED <<total, free, owner>>
ToSet(a) == {a[i] : i \in 1..Len(a)}
RECURSIVE Flat(_)
Flat(ss) == IF ss = <<>> THEN <<>> ELSE Head(ss) \o Flat(Tail(ss))

TInit == P!Init /\ l = 1
\* a new database file: the model starts over (the events of its creation follow)
TReset == Ev("reset") /\ total' = 1 /\ free' = <<>> /\ owner' = << >>
TAlloc == Ev("alloc") /\ P!Alloc(Rec[l].id, Rec[l].reused, P!NoTree)
TDealloc == Ev("dealloc") /\ P!Dealloc(Rec[l].id)
\* the audit: what the file really holds
AuditOk(e) == LET all == Flat(e.owned) IN
  /\ e.nproblems = 0                                   \* walk itself found nothing (loops, pages outside the file, broken links)
  /\ e.total = total
  /\ e.free = free                                     \* same pages in the same order: head and tail as recorded in page zero
  /\ \A i, j \in 1..Len(all) : i # j => all[i] # all[j]  \* no page in two trees / twice in one
  /\ ToSet(all) = DOMAIN owner                          \* nothing handed out is lost, nothing released is still linked
TAudit == /\ Ev("audit") /\ AuditOk(Rec[l])
          /\ owner' = [p \in DOMAIN owner |-> CHOOSE i \in 1..Len(Rec[l].owned) : p \in ToSet(Rec[l].owned[i])]
          /\ UNCHANGED <<total, free>>
\* statements, reopen: nothing the pager model sees by itself
TNote == (Ev("stmt") \/ Ev("reopen")) /\ Same
TNext == TReset \/ TAlloc \/ TDealloc \/ TAudit \/ TNote
TSpec == TInit /\ [][TNext]_tvars
Partition == P!Partition
Accepted == IF TLCGet("stats").diameter - 1 = Len(Rec) THEN TRUE
            ELSE Print(<<"REJECTED", TLCGet("stats").diameter, ToJson(Rec[TLCGet("stats").diameter])>>, FALSE)
=============================================================================
