-------------------------------- MODULE Values --------------------------------
(* Laws of AxmosDB's value system (types/mod.rs, types/macros/datatype.rs) over an abstract rank domain (C19).            *)
(* A value is [cls, ty, rank, frank, nan, negzero]: cls in {"num","text","bool","null"}; rank is its position in the     *)
(* mathematical order of its class (equal numbers of different column types share a rank, NaN has the top rank, text is    *)
(* byte-lexicographic); frank is the rank of the value after rounding to a double.  The engine's answers (==, partial_cmp, *)
(* hash equality, round trips, observer orders) are checked against these laws in ValuesTrace.tla; here the laws are       *)
(* stated once and model-checked for consistency on a small domain (Eq is an equivalence, Cmp a total order compatible     *)
(* with it) - for the ideal rules and for the shipped deviations.                                                          *)
EXTENDS Integers, FiniteSets, TLC
CONSTANTS Dev
ViaF64 == "NumericCompareViaF64" \in Dev
Key(v) == IF v.cls = "num" /\ ViaF64 THEN v.frank ELSE v.rank
NaNOdd(v) == v.nan /\ "NaNNotReflexive" \in Dev

\* what == must answer
Eq(a, b) == IF a.cls = "null" \/ b.cls = "null" THEN a.cls = b.cls
            ELSE IF NaNOdd(a) \/ NaNOdd(b) THEN FALSE
            ELSE a.cls = b.cls /\ Key(a) = Key(b)
\* what partial_cmp must answer
Cmp(a, b) == IF a.cls = "null" \/ b.cls = "null" \/ a.cls # b.cls THEN "none"
             ELSE IF NaNOdd(a) \/ NaNOdd(b) THEN "none"
             ELSE IF Key(a) < Key(b) THEN "lt" ELSE IF Key(a) > Key(b) THEN "gt" ELSE "eq"
\* equal values hash alike (the shipped hash separates 0.0 from -0.0)
HashOk(a, b, heq) == Eq(a, b) => (heq \/ ("NegZeroHashDiffers" \in Dev /\ a.negzero # b.negzero))
\* a sequence of values is in order (NULLs wherever the engine puts them, the others ascending by key)
InOrder(s) == \A i, j \in DOMAIN s : (i < j /\ s[i].cls # "null" /\ s[j].cls # "null") => Key(s[i]) <= Key(s[j])
\* one representative per equivalence class of the written values (plus one NULL)
Classes(read, written) == /\ \A i, j \in DOMAIN read : i # j => ~Eq(read[i], read[j]) \/ NaNOdd(read[i])
                          /\ \A w \in DOMAIN written : \E i \in DOMAIN read : Eq(read[i], written[w]) \/ NaNOdd(written[w])

(* --- consistency of the laws themselves, model-checked over a small domain --- *)
CONSTANTS Ranks
VARIABLES a, b, c
Domain == [cls : {"num", "text", "null"}, ty : {"x"}, rank : Ranks, frank : Ranks, nan : BOOLEAN, negzero : {FALSE}]
Sane(v) == /\ (v.cls # "num" => ~v.nan /\ v.frank = v.rank) /\ (v.nan => v.rank = CHOOSE r \in Ranks : \A q \in Ranks : q <= r)
           /\ (v.cls = "null" => v.rank = CHOOSE r \in Ranks : \A q \in Ranks : r <= q)
Init == a \in Domain /\ b \in Domain /\ c \in Domain /\ Sane(a) /\ Sane(b) /\ Sane(c)
Next == UNCHANGED <<a, b, c>>
Spec == Init /\ [][Next]_<<a, b, c>>
\* rounding is monotone: the double order never inverts the exact order
Monotone == \A x \in {a, b, c}, y \in {a, b, c} : (x.cls = "num" /\ y.cls = "num" /\ x.rank <= y.rank) => x.frank <= y.frank
Equivalence == /\ Eq(a, a) /\ (Eq(a, b) => Eq(b, a)) /\ ((Eq(a, b) /\ Eq(b, c)) => Eq(a, c))
TotalOrder == (a.cls = b.cls /\ a.cls # "null") => /\ Cmp(a, b) \in {"lt", "eq", "gt"}
                                                    /\ (Cmp(a, b) = "eq" <=> Eq(a, b))
                                                    /\ (Cmp(a, b) = "lt" <=> Cmp(b, a) = "gt")
                                                    /\ ((b.cls = c.cls /\ Cmp(a, b) = "lt" /\ Cmp(b, c) = "lt") => Cmp(a, c) = "lt")
\* numeric comparison agrees with the mathematical value, across column types
AgreesWithValue == (a.cls = "num" /\ b.cls = "num" /\ ~a.nan /\ ~b.nan) => (Eq(a, b) <=> a.rank = b.rank)
Laws == Equivalence /\ TotalOrder /\ AgreesWithValue
=============================================================================
