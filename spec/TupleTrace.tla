------------------------------ MODULE TupleTrace ------------------------------
(* Trace validation for C18: events recorded from the real tuple code (verif::tuple facade) must be a behaviour of     *)
(* Tuple.tla, and every decode must return exactly what Walk allows for the recorded snapshot.  Rows of any schema are    *)
(* padded to NV value columns with NULL.  One segment = one row; "build" starts a new one.                               *)
EXTENDS Integers, Sequences, FiniteSets, TLC, Json, IOUtils
CONSTANTS NV, Dev
VARIABLES vs, del, creator, head, hby, hver, deltas, built, l
T == INSTANCE Tuple WITH Val <- Nat, Tid <- Nat, MaxUpd <- 0
tvars == <<vs, del, creator, head, hby, hver, deltas, built, l>>
Rec == ndJsonDeserialize(IOEnv.TRACE)
Cols == 1..NV
Pad(a) == [i \in Cols |-> IF i <= Len(a) THEN a[i] ELSE 0]
ToSet(a) == {a[i] : i \in 1..Len(a)}
SnapOf(j) == [xid |-> j.xid, xmax |-> j.xmax, active |-> ToSet(j.active), aborted |-> ToSet(j.aborted)]
Ev(name) == l <= Len(Rec) /\ Rec[l].ev = name /\ l' = l + 1
Same == UNCHANGED <<vs, del, creator, head, hby, hver, deltas, built>>

TInit == T!Init /\ l = 1
TBuild == /\ Ev("build")
          /\ vs' = << [vals |-> Pad(Rec[l].vals), by |-> Rec[l].by] >> /\ del' = 0 /\ creator' = Rec[l].by
          /\ head' = Pad(Rec[l].vals) /\ hby' = Rec[l].by /\ hver' = 0 /\ deltas' = <<>> /\ built' = TRUE
TUpdate == Ev("update") /\ T!Update(ToSet(Rec[l].ch), Pad(Rec[l].vals), Rec[l].by)
TDelete == Ev("delete") /\ T!Delete(Rec[l].by)
TClear  == Ev("clear") /\ T!ClearDelete
TTrim   == Ev("trim") /\ T!Trim(Rec[l].h)
\* reader: the decoded row (value ids, padded) is the one Walk yields for this snapshot; keys intact is checked by the driver
OutOf(j) == IF Len(j) = 0 THEN <<>> ELSE <<Pad(j[1])>>
TDecode == Ev("decode") /\ T!Walk(SnapOf(Rec[l].snap)) = OutOf(Rec[l].out) /\ Rec[l].keys_ok = TRUE /\ Same
\* newest version regardless of visibility, the header fields and the number of stored versions
TLast   == /\ Ev("last") /\ Pad(Rec[l].vals) = head /\ Rec[l].keys_ok = TRUE /\ Rec[l].xmin = creator
           /\ Rec[l].xmax = del /\ Rec[l].ver = hver /\ Same
\* the row written to its bytes and read back: no change (encode then decode is the identity); the driver compares the bytes
TReload == Ev("reload") /\ Rec[l].same_bytes = TRUE /\ Same
TNext == TBuild \/ TUpdate \/ TDelete \/ TClear \/ TTrim \/ TDecode \/ TLast \/ TReload
TSpec == TInit /\ [][TNext]_tvars
ChainOk == built => T!Chain(head, deltas) = [i \in 1..Len(vs) |-> vs[i].vals]
Accepted == IF TLCGet("stats").diameter - 1 = Len(Rec) THEN TRUE
            ELSE Print(<<"REJECTED", TLCGet("stats").diameter, ToJson(Rec[TLCGet("stats").diameter])>>, FALSE)
=============================================================================
