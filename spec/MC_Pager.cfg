SPECIFICATION Spec
CONSTANTS MaxPages = 6  Trees = {"a", "b"}  Dev = {}
INVARIANT Partition
PROPERTIES ReuseBeforeGrow NeverLost
CHECK_DEADLOCK FALSE
