-------------------------------- MODULE Wire --------------------------------
(* Wire protocol of AxmosDB (tcp/mod.rs): requests and responses as byte        *)
(* sequences, both decoders as total functions, the frame reader, and the        *)
(* enumerated family "every truncation and every single-byte substitution of     *)
(* every small message" (C20).  Bytes are 0..255.  TLC integers are 32-bit       *)
(* signed, so a little-endian u32 whose top byte is >= 128 is the symbolic       *)
(* value Huge (larger than any buffer).                                          *)
EXTENDS Integers, Sequences, FiniteSets, TLC, Json
Version  == 1
MaxFrame == 16777216
Huge     == 2147483647
U32(b) == IF b[4] >= 128 THEN Huge ELSE b[1] + 256 * b[2] + 65536 * b[3] + 16777216 * b[4]
EncU32(n) == <<n % 256, (n \div 256) % 256, (n \div 65536) % 256, n \div 16777216>>
EncStr(s) == EncU32(Len(s)) \o s
Drop(s, n) == SubSeq(s, n + 1, Len(s))
Ok(m)  == [ok |-> TRUE, m |-> m]
Err(c) == [ok |-> FALSE, class |-> c]

(* ------------------------------- requests ------------------------------- *)
ReqStrTags  == {1, 2, 3, 4}                  \* Create, Open, Sql, Explain
ReqUnitTags == {6, 7, 9, 10, 11, 12, 255}    \* Close, Ping, Vacuum, Begin, Commit, Rollback, Shutdown
AnalyzeTag  == 5

EncodeReq(m) == <<Version, m.tag>> \o
                (IF m.tag \in ReqStrTags THEN EncStr(m.s) ELSE IF m.tag = AnalyzeTag THEN m.raw ELSE <<>>)

\* read_string: length prefix, then exactly that many bytes must be there
DecodeStr(p) == IF Len(p) < 4 THEN Err("invalid")
                ELSE LET n == U32(p) IN
                     IF n = Huge THEN Err("invalid")
                     ELSE IF Len(p) - 4 < n THEN Err("invalid") ELSE [ok |-> TRUE, m |-> SubSeq(p, 5, 4 + n), used |-> 4 + n]

DecodeReq(b) ==
  IF Len(b) = 0 THEN Err("invalid")
  ELSE IF b[1] # Version THEN Err("version")
  ELSE IF Len(b) < 2 THEN Err("invalid")
  ELSE LET tag == b[2] p == Drop(b, 2) IN
       IF tag \in ReqStrTags THEN LET r == DecodeStr(p) IN IF r.ok THEN Ok([tag |-> tag, s |-> r.m]) ELSE Err("invalid")
       ELSE IF tag = AnalyzeTag THEN IF Len(p) < 16 THEN Err("invalid") ELSE Ok([tag |-> tag, raw |-> SubSeq(p, 1, 16)])
       ELSE IF tag \in ReqUnitTags THEN Ok([tag |-> tag])
       ELSE Err("unknown")

(* ------------------------------- responses ------------------------------- *)
RespStrTags  == {0, 1, 4, 5}                 \* Ok, Error, Ddl, Explain
RespUnitTags == {6, 7, 8, 10, 11}            \* Pong, Goodbye, ShuttingDown, SessionStarted, SessionEnd
RowsTag == 2
AffectedTag == 3                             \* 8 raw bytes
VacuumTag == 9                               \* 24 raw bytes

RECURSIVE CatStrs(_)
CatStrs(ss) == IF ss = <<>> THEN <<>> ELSE EncStr(Head(ss)) \o CatStrs(Tail(ss))
RECURSIVE CatRows(_)
CatRows(rs) == IF rs = <<>> THEN <<>> ELSE CatStrs(Head(rs)) \o CatRows(Tail(rs))

EncodeResp(m) == <<Version, m.tag>> \o
  (IF m.tag \in RespStrTags THEN EncStr(m.s)
   ELSE IF m.tag = RowsTag THEN EncU32(Len(m.cols)) \o CatStrs(m.cols) \o EncU32(Len(m.rows)) \o CatRows(m.rows)
   ELSE IF m.tag \in {AffectedTag, VacuumTag} THEN m.raw
   ELSE <<>>)

\* n strings in a row; never recurses further than the bytes can back (a string needs at least 4 bytes)
RECURSIVE DecodeStrs(_, _)
DecodeStrs(p, n) ==
  IF n = 0 THEN [ok |-> TRUE, m |-> <<>>, used |-> 0]
  ELSE IF n > Len(p) \div 4 THEN Err("invalid")
  ELSE LET h == DecodeStr(p) IN
       IF ~h.ok THEN Err("invalid")
       ELSE LET t == DecodeStrs(Drop(p, h.used), n - 1) IN
            IF ~t.ok THEN Err("invalid") ELSE [ok |-> TRUE, m |-> <<h.m>> \o t.m, used |-> h.used + t.used]
RECURSIVE DecodeRows(_, _, _)
DecodeRows(p, nrows, ncols) ==
  IF nrows = 0 THEN [ok |-> TRUE, m |-> <<>>]
  ELSE LET r == DecodeStrs(p, ncols) IN
       IF ~r.ok THEN Err("invalid")
       ELSE LET t == DecodeRows(Drop(p, r.used), nrows - 1, ncols) IN
            IF ~t.ok THEN Err("invalid") ELSE [ok |-> TRUE, m |-> <<r.m>> \o t.m]

DecodeResp(b) ==
  IF Len(b) < 2 THEN Err("invalid")
  ELSE IF b[1] # Version THEN Err("version")
  ELSE LET tag == b[2] p == Drop(b, 2) IN
       IF tag \in RespStrTags THEN LET r == DecodeStr(p) IN IF r.ok THEN Ok([tag |-> tag, s |-> r.m]) ELSE Err("invalid")
       ELSE IF tag = RowsTag THEN
            IF Len(p) < 4 THEN Err("invalid")
            ELSE LET nc == U32(p) IN
                 IF nc = Huge THEN Err("invalid")                          \* a count the remaining bytes cannot back
                 ELSE LET cs == DecodeStrs(Drop(p, 4), nc) IN
                      IF ~cs.ok THEN Err("invalid")
                      ELSE LET q == Drop(p, 4 + cs.used) IN
                           IF Len(q) < 4 THEN Err("invalid")
                           ELSE LET nr == U32(q) IN
                                \* rows of zero columns occupy no bytes: their number is capped by the frame limit
                                IF nr = Huge \/ (nc = 0 /\ nr > MaxFrame) THEN Err("invalid")
                                ELSE IF nc = 0 /\ nr > 64 THEN [ok |-> TRUE, m |-> [tag |-> tag, cols |-> <<>>, nrows |-> nr]]
                                ELSE LET rs == DecodeRows(Drop(q, 4), nr, nc) IN
                                     IF rs.ok THEN Ok([tag |-> tag, cols |-> cs.m, rows |-> rs.m]) ELSE Err("invalid")
       ELSE IF tag = AffectedTag THEN IF Len(p) < 8 THEN Err("invalid") ELSE Ok([tag |-> tag, raw |-> SubSeq(p, 1, 8)])
       ELSE IF tag = VacuumTag THEN IF Len(p) < 24 THEN Err("invalid") ELSE Ok([tag |-> tag, raw |-> SubSeq(p, 1, 24)])
       ELSE IF tag \in RespUnitTags THEN Ok([tag |-> tag])
       ELSE Err("unknown")

(* frame reader: u32-LE length, cap, then exactly that many bytes; alloc = size of the buffer it allocates *)
ReadFrame(stream) ==
  IF Len(stream) < 4 THEN [st |-> "eof", alloc |-> 0]
  ELSE LET n == U32(stream) IN
       IF n > MaxFrame THEN [st |-> "too_large", alloc |-> 0]
       ELSE IF Len(stream) - 4 < n THEN [st |-> "eof", alloc |-> n]
       ELSE [st |-> "frame", alloc |-> n, body |-> SubSeq(stream, 5, 4 + n)]

(* ------------------------- the enumerated family ------------------------- *)
Strings == { <<>>, <<97>>, <<97, 98>>, <<195, 169>>, <<255>> }      \* "", "a", "ab", "é", an invalid UTF-8 byte
Raw(n) == [i \in 1..n |-> IF i = n THEN 63 ELSE IF i = 1 THEN 7 ELSE 0]
ReqMsgs == {[tag |-> t, s |-> s] : t \in ReqStrTags, s \in Strings} \cup {[tag |-> t] : t \in ReqUnitTags}
           \cup {[tag |-> AnalyzeTag, raw |-> Raw(16)]}
ColSets == { <<>>, << <<97>> >>, << <<>>, <<195, 169>> >> }
RowsFor(cols) == IF cols = <<>> THEN { <<>>, << <<>> >>, << <<>>, <<>> >> }        \* zero columns: rows carry no bytes
                 ELSE IF Len(cols) = 1 THEN { <<>>, << << <<97, 98>> >> >>, << << <<>> >>, << <<255>> >> >> }
                 ELSE { <<>>, << << <<97>>, <<>> >> >>, << << <<>>, <<97>> >>, << <<195, 169>>, <<98>> >> >> }
RespMsgs == {[tag |-> t, s |-> s] : t \in RespStrTags, s \in Strings} \cup {[tag |-> t] : t \in RespUnitTags}
            \cup {[tag |-> AffectedTag, raw |-> Raw(8)], [tag |-> VacuumTag, raw |-> Raw(24)]}
            \cup UNION {{[tag |-> RowsTag, cols |-> c, rows |-> r] : r \in RowsFor(c)} : c \in ColSets}
Subst == {0, 1, 2, 255}

VARIABLES kind, m, bytes, done
wvars == <<kind, m, bytes, done>>
Mutations(e) == {e} \cup {SubSeq(e, 1, n) : n \in 0..(Len(e) - 1)}
                \cup {[e EXCEPT ![i] = x] : i \in 1..Len(e), x \in Subst}
Init == /\ done = FALSE
        /\ \/ kind = "req"  /\ m \in ReqMsgs  /\ bytes \in Mutations(EncodeReq(m))
           \/ kind = "resp" /\ m \in RespMsgs /\ bytes \in Mutations(EncodeResp(m))
Next == ~done /\ done' = TRUE /\ UNCHANGED <<kind, m, bytes>>
Spec == Init /\ [][Next]_wvars

Verdict == IF kind = "req" THEN DecodeReq(bytes) ELSE DecodeResp(bytes)
Encode(x) == IF kind = "req" THEN EncodeReq(x) ELSE EncodeResp(x)
RoundTrip == LET r == (IF kind = "req" THEN DecodeReq(EncodeReq(m)) ELSE DecodeResp(EncodeResp(m))) IN r.ok /\ r.m = m
\* whatever the bytes: a verdict exists, and an Ok verdict re-encodes to a prefix of the input (trailing bytes are ignored)
Total == LET r == Verdict IN
         IF r.ok /\ "nrows" \notin DOMAIN r.m THEN LET e == Encode(r.m) IN Len(e) <= Len(bytes) /\ SubSeq(bytes, 1, Len(e)) = e ELSE TRUE
FrameAllocBounded == LET f == ReadFrame(EncU32(Len(bytes)) \o bytes) IN f.alloc <= MaxFrame /\ f.st = "frame"
Emit == done => PrintT(<<"CASE", ToJson([kind |-> kind, bytes |-> bytes, verdict |-> Verdict])>>)
=============================================================================
