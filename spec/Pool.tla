-------------------------------- MODULE Pool --------------------------------
(* Worker pool of AxmosDB (multithreading/threadpool.rs, runner.rs): callers   *)
(* submit one job per statement and block on a channel; workers pop jobs.      *)
(* A job may panic.  As built the panic unwinds through Worker::new's loop and *)
(* the worker thread is gone; the caller sees "channel closed".                *)
EXTENDS Naturals, Sequences, FiniteSets, TLC
CONSTANTS Workers, Callers, MaxPanics, Dev
VARIABLES alive,     \* set of live workers
          busy,      \* worker -> caller it is running a job for, or "idle"
          queue,     \* FIFO of callers whose job is queued (JobQueue is a VecDeque)
          cst,       \* caller -> "think" | "waiting" | "ok" | "err"
          panics
vars == <<alive, busy, queue, cst, panics>>
Contained == "WorkerDiesOnPanic" \notin Dev       \* ideal: catch_unwind around the job

Init == /\ alive = Workers /\ busy = [w \in Workers |-> "idle"] /\ queue = <<>>
        /\ cst = [c \in Callers |-> "think"] /\ panics = 0

Submit(c) == /\ cst[c] \in {"think", "ok", "err"} /\ cst' = [cst EXCEPT ![c] = "waiting"]
             /\ queue' = Append(queue, c) /\ UNCHANGED <<alive, busy, panics>>
\* design mutation DrainOutsideGuard: a worker that has just finished takes queued jobs without the panic guard
Take(w) == /\ w \in alive /\ busy[w] = "idle" /\ queue # <<>>
           /\ busy' = [busy EXCEPT ![w] = Head(queue)] /\ queue' = Tail(queue) /\ UNCHANGED <<alive, cst, panics>>
Finish(w) == /\ w \in alive /\ busy[w] # "idle"
             /\ cst' = [cst EXCEPT ![busy[w]] = "ok"] /\ busy' = [busy EXCEPT ![w] = "idle"]
             /\ UNCHANGED <<alive, queue, panics>>
Panic(w) == /\ w \in alive /\ busy[w] # "idle" /\ panics < MaxPanics
            /\ panics' = panics + 1
            /\ cst' = [cst EXCEPT ![busy[w]] = "err"]             \* the sender is dropped, recv() fails: the caller gets an error
            /\ busy' = [busy EXCEPT ![w] = "idle"]
            /\ alive' = IF Contained THEN alive ELSE alive \ {w}
            /\ UNCHANGED queue
Next == (\E c \in Callers : Submit(c)) \/ (\E w \in Workers : Finish(w) \/ Panic(w) \/ Take(w))
Fair == \A w \in Workers : WF_vars(Finish(w) \/ Panic(w)) /\ WF_vars(Take(w))
Spec == Init /\ [][Next]_vars /\ Fair

NoWorkerLost   == alive = Workers                                            \* C16: "no input makes a worker die"
EveryCallEnds  == \A c \in Callers : (cst[c] = "waiting") ~> (cst[c] \in {"ok", "err"})   \* C14/C16: bounded time, no hang
=============================================================================
