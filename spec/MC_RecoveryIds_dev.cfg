SPECIFICATION Spec
CONSTANTS Tx = {1, 2, 3}  MaxObj = 2  MaxRows = 2  Dev = {"RedoCreateDrawsFreshObjectId"}
CONSTRAINT Bounded
INVARIANTS AlwaysOpens Coherent
CHECK_DEADLOCK FALSE
