-------------------------------- MODULE BTree --------------------------------
(* A B+tree of AxmosDB (tree/bplustree.rs) as an ordered map with a sound structure (C10).      *)
(*   m - what the tree must contain: key -> payload (keys are ranks in the key order, naturals) *)
(*   g - the page graph: [root, nodes], nodes[id] = [leaf, keys, kids, next, prev] (0 = none)     *)
(* Operations (one per entry point): Insert fails on an existing key, Update and Remove on a      *)
(* missing one, Upsert never; every operation leaves a graph that is WellFormed and holds          *)
(* exactly m.  WellFormed is what the search code relies on: find_child takes the first           *)
(* separator greater than the key, so the subtree left of separator i holds keys in              *)
(* [sep(i-1), sep(i)), leaves are at one depth and chained left to right in key order.            *)
(* The model tree used for exhaustive checking has a root over leaves of capacity Cap             *)
(* (split on overflow, unlink on emptiness); the code's own shapes are checked against            *)
(* WellFormed in BTreeTrace.tla.                                                                  *)
EXTENDS Integers, Sequences, FiniteSets, TLC
CONSTANTS Keys, Vals, Cap, Dev
VARIABLES m, g, last
bvars == <<m, g, last>>

Range(s) == {s[i] : i \in 1..Len(s)}
Ascending(s) == \A i \in 1..(Len(s) - 1) : s[i] < s[i + 1]
Max(S) == CHOOSE x \in S : \A y \in S : y <= x

(* ------------------------------ reading a graph ------------------------------ *)
Node(gr, n) == gr.nodes[n]
RECURSIVE LeavesOf(_, _), KeysUnder(_, _), DepthsOf(_, _, _), Size(_, _)
\* leaves under n, left to right
LeavesOf(gr, n) == IF Node(gr, n).leaf THEN <<n>>
                   ELSE LET ks == Node(gr, n).kids IN
                        LET F[i \in 0..Len(ks)] == IF i = 0 THEN <<>> ELSE F[i - 1] \o LeavesOf(gr, ks[i]) IN F[Len(ks)]
KeysUnder(gr, n) == IF Node(gr, n).leaf THEN Range(Node(gr, n).keys)
                    ELSE UNION {KeysUnder(gr, Node(gr, n).kids[i]) : i \in 1..Len(Node(gr, n).kids)}
DepthsOf(gr, n, d) == IF Node(gr, n).leaf THEN {d}
                      ELSE UNION {DepthsOf(gr, Node(gr, n).kids[i], d + 1) : i \in 1..Len(Node(gr, n).kids)}
Size(gr, n) == IF Node(gr, n).leaf THEN 1
               ELSE LET ks == Node(gr, n).kids IN
                    LET F[i \in 0..Len(ks)] == IF i = 0 THEN 1 ELSE F[i - 1] + Size(gr, ks[i]) IN F[Len(ks)]
RECURSIVE InteriorOk(_, _)
\* separators ascending, one more child than separators, every child's keys inside its separator interval
InteriorOk(gr, n) ==
  LET nd == Node(gr, n) IN
  IF nd.leaf THEN Ascending(nd.keys)
  ELSE /\ Ascending(nd.keys)
       /\ Len(nd.kids) = Len(nd.keys) + 1
       /\ \A i \in 1..Len(nd.kids) :
            /\ InteriorOk(gr, nd.kids[i])
            /\ \A k \in KeysUnder(gr, nd.kids[i]) :
                 /\ (i <= Len(nd.keys) => k < nd.keys[i])
                 /\ (i > 1 => k >= nd.keys[i - 1])
\* all keys of the tree, in leaf order
RECURSIVE Flatten(_, _)
Flatten(gr, ls) == IF ls = <<>> THEN <<>> ELSE Node(gr, Head(ls)).keys \o Flatten(gr, Tail(ls))
Chained(gr, ls) == /\ (ls # <<>> => Node(gr, ls[1]).prev = 0 /\ Node(gr, ls[Len(ls)]).next = 0)
                   /\ \A i \in 1..(Len(ls) - 1) : Node(gr, ls[i]).next = ls[i + 1] /\ Node(gr, ls[i + 1]).prev = ls[i]
WellFormed(gr) ==
  LET ls == LeavesOf(gr, gr.root) IN
  /\ InteriorOk(gr, gr.root)                                  \* ordered within pages, separators route correctly
  /\ Cardinality(DepthsOf(gr, gr.root, 0)) = 1                 \* all leaves at the same depth
  /\ Chained(gr, ls)                                           \* sibling links mirror the key order
  /\ Ascending(Flatten(gr, ls))                                \* ordered across pages, every key once
  /\ Size(gr, gr.root) = Cardinality(DOMAIN gr.nodes)          \* no page reached twice, none stray
Holds(gr, mm) == Range(Flatten(gr, LeavesOf(gr, gr.root))) = DOMAIN mm
\* the search of the code: first separator greater than the key, else the right-most child
RECURSIVE Route(_, _, _)
Route(gr, n, k) == LET nd == Node(gr, n) IN
  IF nd.leaf THEN n
  ELSE LET lt == {i \in 1..Len(nd.keys) : k < nd.keys[i]} IN
       Route(gr, nd.kids[IF lt = {} THEN Len(nd.kids) ELSE CHOOSE i \in lt : \A j \in lt : i <= j], k)
Finds(gr, k) == k \in Range(Node(gr, Route(gr, gr.root, k)).keys)
\* the functional guarantee that follows from the structure: a lookup finds exactly the keys of m
LookupSound(gr, mm) == \A k \in Keys : Finds(gr, k) <=> k \in DOMAIN mm

(* ----------------------- the model tree (root over leaves) ----------------------- *)
Leaf(ks, p, n) == [leaf |-> TRUE, keys |-> ks, kids |-> <<>>, next |-> n, prev |-> p]
Init == /\ m = << >>
        /\ g = [root |-> 1, nodes |-> (1 :> Leaf(<<>>, 0, 0))]
        /\ last = "init"
AscSeq(S) == LET F[i \in 0..Cardinality(S)] ==
                    IF i = 0 THEN <<>> ELSE LET rest == S \ Range(F[i - 1]) IN Append(F[i - 1], CHOOSE x \in rest : \A y \in rest : x <= y)
              IN F[Cardinality(S)]
\* rebuild the two-level tree over the leaf partition `parts` (a sequence of non-empty ascending key sequences)
Build(parts) ==
  IF Len(parts) <= 1 THEN [root |-> 1, nodes |-> (1 :> Leaf(IF parts = <<>> THEN <<>> ELSE parts[1], 0, 0))]
  ELSE LET n == Len(parts) IN
       [root |-> 1,
        nodes |-> [id \in 1..(n + 1) |->
                     IF id = 1 THEN [leaf |-> FALSE, keys |-> [i \in 1..(n - 1) |-> IF "SeparatorIsLastOfLeft" \in Dev THEN parts[i][Len(parts[i])] ELSE parts[i + 1][1]], kids |-> [i \in 1..n |-> i + 1], next |-> 0, prev |-> 0]
                     ELSE Leaf(parts[id - 1], IF id = 2 THEN 0 ELSE id - 1, IF id = n + 1 THEN 0 ELSE id + 1)]]
Parts(gr) == LET ls == LeavesOf(gr, gr.root) IN [i \in 1..Len(ls) |-> Node(gr, ls[i]).keys]
\* put k into the leaf the search routes to; a leaf over capacity splits in the middle (balance / balance_deeper)
InsertKey(parts, k) ==
  IF parts = <<>> THEN << <<k>> >>
  ELSE LET idx == {i \in 1..Len(parts) : i = Len(parts) \/ k < parts[i + 1][1]}
           i   == CHOOSE x \in idx : \A y \in idx : x <= y
           nk  == AscSeq(Range(parts[i]) \cup {k})
           h   == (Len(nk) + 1) \div 2
       IN IF Len(nk) <= Cap THEN [parts EXCEPT ![i] = nk]
          ELSE SubSeq(parts, 1, i - 1) \o << SubSeq(nk, 1, h), SubSeq(nk, h + 1, Len(nk)) >> \o SubSeq(parts, i + 1, Len(parts))
RemoveKey(parts, k) ==
  LET np == [i \in 1..Len(parts) |-> SelectSeq(parts[i], LAMBDA x : x # k)] IN SelectSeq(np, LAMBDA s : s # <<>>)

Insert(k, v) == /\ IF k \in DOMAIN m THEN last' = "exists" /\ UNCHANGED <<m, g>>
                   ELSE /\ m' = [x \in DOMAIN m \cup {k} |-> IF x = k THEN v ELSE m[x]]
                        /\ g' = Build(InsertKey(IF m = << >> THEN <<>> ELSE Parts(g), k)) /\ last' = "ok"
Update(k, v) == /\ IF k \notin DOMAIN m THEN last' = "missing" /\ UNCHANGED <<m, g>>
                   ELSE m' = [m EXCEPT ![k] = v] /\ UNCHANGED g /\ last' = "ok"
Upsert(k, v) == IF k \in DOMAIN m THEN Update(k, v) ELSE Insert(k, v)
Remove(k) == /\ IF k \notin DOMAIN m THEN last' = "missing" /\ UNCHANGED <<m, g>>
                ELSE /\ m' = [x \in DOMAIN m \ {k} |-> m[x]]
                     /\ g' = Build(RemoveKey(Parts(g), k)) /\ last' = "ok"
Next == \E k \in Keys : \/ \E v \in Vals : Insert(k, v) \/ Update(k, v) \/ Upsert(k, v)
                        \/ Remove(k)
Spec == Init /\ [][Next]_bvars

Sound == WellFormed(g) /\ Holds(g, m) /\ LookupSound(g, m)
\* the structure alone gives the functional guarantee: for every graph the model reaches, and (BTreeTrace) for every graph the code builds
=============================================================================
