SPECIFICATION Spec
CONSTANTS Tx = {1, 2, 3}  MaxObj = 2  MaxRows = 2  Dev = {}
CONSTRAINT Bounded
INVARIANTS AlwaysOpens Coherent
CHECK_DEADLOCK FALSE
