SPECIFICATION Spec
CONSTANTS MaxPages = 6  Trees = {"a", "b"}  Dev = {"DeallocForgetsTail"}
INVARIANT Partition
PROPERTIES ReuseBeforeGrow NeverLost
CHECK_DEADLOCK FALSE
