--------------------------------- MODULE Db ---------------------------------
(* AxmosDB at the level of its SQL API (C03 C04 C05 C06 C07 C09 C12 C13 C15):     *)
(* tables as MVCC objects holding MVCC rows, transactions with begin-time          *)
(* snapshots, statements with SQL semantics (SqlRel), constraints, VACUUM,         *)
(* close/reopen.  One action per API call; the statement's effect and its         *)
(* admissible outcome are functions of the state, so the same definitions serve    *)
(* trace validation (DbTrace) and behaviour generation.                            *)
(*                                                                                  *)
(* Dev: deviations of the code from the ideal design that the specification can     *)
(* reproduce exactly (each is a recorded finding):                                   *)
(*   "UpdateStampsCreator"  Tuple::add_version_with stamps a new version with the   *)
(*                          row creator's id: an UPDATE is visible to everyone who   *)
(*                          sees the row and survives ROLLBACK (pinned by a test)    *)
EXTENDS SqlRel
CONSTANT Dev

VARIABLES tabs,       \* sequence of table objects [name, cols, uniq, rows, cr, drop]
                      \*   cols: <<[ty, nn]..>>, uniq: <<<<col idx..>>..>>, cr: creating tx, drop: set of dropping txs
                      \*   rows: <<[vers |-> <<[vals, by]..>> newest first, cr |-> tx, del |-> set of tx]..>>
          committed,  \* set of committed transaction ids
          snap,       \* tx -> set of transactions committed when it began (active transactions only)
          sess        \* session -> tx it runs
dbvars == <<tabs, committed, snap, sess>>

Stamp == "UpdateStampsCreator" \in Dev

DbInit == tabs = <<>> /\ committed = {} /\ snap = <<>> /\ sess = <<>>

Put(f, k, v) == [x \in DOMAIN f \cup {k} |-> IF x = k THEN v ELSE f[x]]
Del(f, k) == [x \in DOMAIN f \ {k} |-> f[x]]

(* ------------------------------ visibility ------------------------------ *)
Sees(t, w) == IF w = t THEN TRUE ELSE w \in snap[t]
RECURSIVE FirstVisible(_, _)
FirstVisible(t, vs) == IF vs = <<>> THEN <<>> ELSE IF Sees(t, Head(vs).by) THEN <<Head(vs)>> ELSE FirstVisible(t, Tail(vs))
RowVisible(t, r) == IF ~Sees(t, r.cr) THEN FALSE
                    ELSE IF \E d \in r.del : Sees(t, d) THEN FALSE
                    ELSE FirstVisible(t, r.vers) # <<>>
RowVals(t, r) == FirstVisible(t, r.vers)[1].vals
TabVisible(t, o) == IF ~Sees(t, o.cr) THEN FALSE ELSE ~\E d \in o.drop : Sees(t, d)
TabIdxOn(T, t, name) == {i \in 1..Len(T) : T[i].name = name /\ TabVisible(t, T[i])}
TabIdx(t, name) == TabIdxOn(tabs, t, name)
HasTab(t, name) == TabIdx(t, name) # {}
TheTab(t, name) == CHOOSE i \in TabIdx(t, name) : TRUE
VisIdx(t, o) == {j \in 1..Len(o.rows) : RowVisible(t, o.rows[j])}
RECURSIVE SeqOfSet(_)
SeqOfSet(S) == IF S = {} THEN <<>> ELSE LET m == CHOOSE x \in S : \A y \in S : x <= y IN <<m>> \o SeqOfSet(S \ {m})
TabRows(t, o) == LET ix == SeqOfSet(VisIdx(t, o)) IN [k \in 1..Len(ix) |-> RowVals(t, o.rows[ix[k]])]
\* what SELECT sees: visible table name -> visible rows
Names(t) == {tabs[i].name : i \in {j \in 1..Len(tabs) : TabVisible(t, tabs[j])}}
View(t) == [n \in Names(t) |-> TabRows(t, tabs[TheTab(t, n)])]

(* ------------------------------ statements ------------------------------ *)
FromKnown(q, t) == \A i \in 1..Len(q.from) : HasTab(t, q.from[i].t)
SelectOk(q, t, out) ==
  IF ~FromKnown(q, t) THEN out.k = "err"
  ELSE IF SelectErr(q, View(t)) THEN out.k = "err"
  ELSE IF out.k = "rows" THEN Admissible(q, View(t), out.rows) ELSE FALSE

Coerce(v, ty) == IF v.t = "i" /\ ty = "double" THEN F2(2 * v.v) ELSE v
TypeOk(v, ty) == CASE v.t = "n" -> TRUE
                   [] ty = "int"    -> v.t = "i"
                   [] ty = "double" -> v.t \in {"i", "f", "x"}
                   [] ty = "text"   -> v.t = "s"
                   [] ty = "bool"   -> v.t = "b"
                   [] OTHER -> FALSE
Key(vals, cols) == [i \in 1..Len(cols) |-> vals[cols[i]]]
KeyNull(vals, cols) == \E i \in 1..Len(cols) : IsNull(vals[cols[i]])
\* would the rows `news` (sequence of value rows) together with the visible rows `olds` break a constraint of o?
BreaksNotNull(o, news) == \E i \in 1..Len(news) : \E c \in 1..Len(o.cols) : o.cols[c].nn /\ IsNull(news[i][c])
BreaksUnique(o, olds, news) ==
  \E u \in 1..Len(o.uniq) :
    \/ \E i \in 1..Len(news) : ~KeyNull(news[i], o.uniq[u]) /\ \E j \in 1..Len(olds) : Key(olds[j], o.uniq[u]) = Key(news[i], o.uniq[u])
    \/ \E i, j \in 1..Len(news) : i < j /\ ~KeyNull(news[i], o.uniq[u]) /\ Key(news[i], o.uniq[u]) = Key(news[j], o.uniq[u])
BadTypes(o, news) == \E i \in 1..Len(news) : \E c \in 1..Len(o.cols) : ~TypeOk(news[i][c], o.cols[c].ty)

\* full-width rows of an INSERT: listed columns take the literal, the others NULL
InsRows(q, o) == [i \in 1..Len(q.rows) |->
                    [c \in 1..Len(o.cols) |->
                       IF \E k \in 1..Len(q.cols) : q.cols[k] = c
                       THEN Coerce(q.rows[i][CHOOSE k \in 1..Len(q.cols) : q.cols[k] = c], o.cols[c].ty) ELSE NullV]]

NewRow(vals, t) == [vers |-> <<[vals |-> vals, by |-> t]>>, cr |-> t, del |-> {}]

\* result of a DML statement: [ok, n, tabs]
DmlOn(T, q, t) ==
  IF TabIdxOn(T, t, q.tbl) = {} THEN [ok |-> FALSE, n |-> 0, tabs |-> T]
  ELSE LET ti == CHOOSE i \in TabIdxOn(T, t, q.tbl) : TRUE o == T[ti] vis == SeqOfSet(VisIdx(t, o)) olds == TabRows(t, o) IN
  CASE q.k = "insert" ->
         LET news == InsRows(q, o) IN
         IF BadTypes(o, news) \/ BreaksNotNull(o, news) \/ BreaksUnique(o, olds, news)
         THEN [ok |-> FALSE, n |-> 0, tabs |-> T]
         ELSE [ok |-> TRUE, n |-> Len(news),
               tabs |-> [T EXCEPT ![ti] = [o EXCEPT !.rows = @ \o [i \in 1..Len(news) |-> NewRow(news[i], t)]]]]
    [] q.k = "delete" ->
         LET hit == {vis[k] : k \in {x \in 1..Len(vis) : IsTrue(Eval(q.where, olds[x]))}} IN
         IF \E x \in 1..Len(olds) : IsErr(Eval(q.where, olds[x])) THEN [ok |-> FALSE, n |-> 0, tabs |-> T]
         ELSE [ok |-> TRUE, n |-> Cardinality(hit),
               tabs |-> [T EXCEPT ![ti] = [o EXCEPT !.rows = [j \in 1..Len(o.rows) |->
                                      IF j \in hit THEN [o.rows[j] EXCEPT !.del = @ \cup {t}] ELSE o.rows[j]]]]]
    [] q.k = "update" ->
         LET hitk == {x \in 1..Len(vis) : IsTrue(Eval(q.where, olds[x]))}
             newv(x) == [c \in 1..Len(o.cols) |->
                           IF \E s \in 1..Len(q.set) : q.set[s].c = c
                           THEN Coerce(Eval(q.set[CHOOSE s \in 1..Len(q.set) : q.set[s].c = c].e, olds[x]), o.cols[c].ty)
                           ELSE olds[x][c]]
             hitseq == SeqOfSet(hitk)
             news == [k \in 1..Len(hitseq) |-> newv(hitseq[k])]
             rest == SelectSeq([x \in 1..Len(olds) |-> IF x \in hitk THEN <<>> ELSE olds[x]], LAMBDA r : r # <<>>)
             bad == \/ \E x \in 1..Len(olds) : IsErr(Eval(q.where, olds[x]))
                    \/ \E k \in 1..Len(news) : \E c \in 1..Len(o.cols) : IsErr(news[k][c])
         IN IF bad THEN [ok |-> FALSE, n |-> 0, tabs |-> T]
            ELSE IF BadTypes(o, news) \/ BreaksNotNull(o, news) \/ BreaksUnique(o, rest, news)
            THEN [ok |-> FALSE, n |-> 0, tabs |-> T]
            ELSE [ok |-> TRUE, n |-> Cardinality(hitk),
                  tabs |-> [T EXCEPT ![ti] = [o EXCEPT !.rows = [j \in 1..Len(o.rows) |->
                                         IF \E k \in 1..Len(hitseq) : vis[hitseq[k]] = j
                                         THEN LET k == CHOOSE kk \in 1..Len(hitseq) : vis[hitseq[kk]] = j IN
                                              [o.rows[j] EXCEPT !.vers = <<[vals |-> news[k],
                                                                            by |-> IF Stamp THEN o.rows[j].cr ELSE t]>> \o @]
                                         ELSE o.rows[j]]]]]

Dml(q, t) == DmlOn(tabs, q, t)

\* a batch: statements applied one after the other inside one transaction; the first failure fails the batch
RECURSIVE BatchOn(_, _, _)
BatchOn(T, qs, t) == IF qs = <<>> THEN [ok |-> TRUE, tabs |-> T]
                     ELSE LET r == DmlOn(T, Head(qs), t) IN IF r.ok THEN BatchOn(r.tabs, Tail(qs), t) ELSE [ok |-> FALSE, tabs |-> T]

DmlOk(q, t, out) == LET r == Dml(q, t) IN
                    IF r.ok THEN (IF out.k = "count" THEN out.n = r.n ELSE FALSE) ELSE out.k = "err"

(* -------- DDL: tables are MVCC objects, so DDL is atomic with its transaction -------- *)
CreateOk(t, name) == ~HasTab(t, name)
NewTab(name, cols, uniq, t) == [name |-> name, cols |-> cols, uniq |-> uniq, rows |-> <<>>, cr |-> t, drop |-> {}]

(* ------------------------------ transactions ------------------------------ *)
Begin(t) == snap' = Put(snap, t, committed)
Finish(t, ok) == /\ snap' = Del(snap, t)
                 /\ committed' = IF ok THEN committed \cup {t} ELSE committed

(* VACUUM: aborts every open transaction, then drops what nobody can see any more: rows and tables created by
   transactions that did not commit, rows whose deleter committed, dropped tables, superseded versions.        *)
Live(t) == t \in committed
VacRow(r) == [vers |-> LET cv == SelectSeq(r.vers, LAMBDA v : Live(v.by)) IN IF cv = <<>> THEN <<>> ELSE <<Head(cv)>>,
              cr |-> r.cr, del |-> {d \in r.del : Live(d)}]
KeepRow(r) == Live(r.cr) /\ ~\E d \in r.del : Live(d)
VacTab(o) == [o EXCEPT !.rows = LET kept == SelectSeq(o.rows, KeepRow) IN [i \in 1..Len(kept) |-> VacRow(kept[i])],
                       !.drop = {d \in o.drop : Live(d)}]
Vacuumed == LET kept == SelectSeq(tabs, LAMBDA o : Live(o.cr) /\ ~\E d \in o.drop : Live(d))
            IN [i \in 1..Len(kept) |-> VacTab(kept[i])]

(* what a fresh transaction reads: the committed state (C03 / C09 / C13 compare it before and after) *)
FreshSees(w) == w \in committed
=============================================================================
