SPECIFICATION Spec
CONSTANTS Tx = {1, 2}  Keys = {1, 2}  MaxWrites = 1  MaxCrashes = 2  MaxCkpts = 1  Dev = {"RecoveryLogsReplay"}
INVARIANTS Durable ExactState
CHECK_DEADLOCK FALSE
