------------------------------- MODULE DbTrace -------------------------------
(* Trace validation for the SQL-level properties (implementation -> spec): an       *)
(* ndjson trace recorded from the real engine through its public API is accepted    *)
(* iff it is a behaviour of Db.tla.  Every observation is bound: rows returned by   *)
(* SELECT (bag / order admissibility), counts reported by DML, success or failure   *)
(* of every call.  Transaction ids, row ids, error texts and plans are not bound.   *)
(* Autocommit calls are recorded as begin / stmt / commit|rollback of session 0     *)
(* (that is what Database::execute does internally).                                *)
EXTENDS Db, Json, IOUtils
Rec == ndJsonDeserialize(IOEnv.TRACE)
VARIABLE l
tvars == <<tabs, committed, snap, sess, l>>

TInit == DbInit /\ l = 1
Ev == Rec[l]
Is(name) == l <= Len(Rec) /\ Ev.ev = name
Step == l' = l + 1
Tx(e) == sess[e.s]
Ok(out) == out.k \in {"rows", "count", "ddl", "unit"}

TReset == Is("reset") /\ Step /\ tabs' = <<>> /\ committed' = {} /\ snap' = <<>> /\ sess' = <<>>

TBegin == Is("begin") /\ Step /\ (Ok(Ev.out) = TRUE)
          /\ sess' = Put(sess, Ev.s, Ev.tx) /\ Begin(Ev.tx) /\ UNCHANGED <<tabs, committed>>

TSelect == Is("stmt") /\ Ev.q.k = "select" /\ Step
           /\ (SelectOk(Ev.q, Tx(Ev), Ev.out) = TRUE)
           /\ UNCHANGED dbvars

TDml == Is("stmt") /\ Ev.q.k \in {"insert", "update", "delete"} /\ Step
        /\ (DmlOk(Ev.q, Tx(Ev), Ev.out) = TRUE)
        /\ tabs' = (IF Ok(Ev.out) THEN Dml(Ev.q, Tx(Ev)).tabs ELSE tabs)
        /\ UNCHANGED <<committed, snap, sess>>

\* execute_batch: DML statements applied in order inside one transaction (recorded as begin / batch / commit|rollback)
TBatch == Is("batch") /\ Step
          /\ LET r == BatchOn(tabs, Ev.qs, Tx(Ev)) IN
             /\ (IF r.ok THEN Ok(Ev.out) ELSE Ev.out.k = "err") = TRUE
             /\ tabs' = r.tabs      \* the prefix that ran stays in the store; the rollback that follows makes it invisible
          /\ UNCHANGED <<committed, snap, sess>>

TCreate == Is("stmt") /\ Ev.q.k = "create" /\ Step
           /\ (IF CreateOk(Tx(Ev), Ev.q.tbl) THEN Ok(Ev.out) ELSE Ev.out.k = "err") = TRUE
           /\ tabs' = (IF Ok(Ev.out) THEN Append(tabs, NewTab(Ev.q.tbl, Ev.q.cols, Ev.q.uniq, Tx(Ev))) ELSE tabs)
           /\ UNCHANGED <<committed, snap, sess>>

TDrop == Is("stmt") /\ Ev.q.k = "drop" /\ Step
         \* DROP TABLE IF EXISTS (ifx) on a name that is not there succeeds and changes nothing - no other table goes
         /\ (IF HasTab(Tx(Ev), Ev.q.tbl) \/ Ev.q.ifx THEN Ok(Ev.out) ELSE Ev.out.k = "err") = TRUE
         /\ tabs' = (IF Ok(Ev.out) /\ HasTab(Tx(Ev), Ev.q.tbl) THEN LET i == TheTab(Tx(Ev), Ev.q.tbl) IN [tabs EXCEPT ![i].drop = @ \cup {Tx(Ev)}] ELSE tabs)
         /\ UNCHANGED <<committed, snap, sess>>

\* ALTER TABLE t ALTER COLUMN c SET | DROP NOT NULL (autocommit): from then on the column does / does not admit NULL.
\* The engine does not validate the stored rows on SET (the driver only sets it on columns that hold no NULL).
TAlter == Is("stmt") /\ Ev.q.k = "alternn" /\ Step
          /\ (IF HasTab(Tx(Ev), Ev.q.tbl) THEN Ok(Ev.out) ELSE Ev.out.k = "err") = TRUE
          /\ tabs' = (IF Ok(Ev.out) THEN LET i == TheTab(Tx(Ev), Ev.q.tbl) IN [tabs EXCEPT ![i].cols[Ev.q.c].nn = Ev.q.nn] ELSE tabs)
          /\ UNCHANGED <<committed, snap, sess>>

\* CREATE UNIQUE INDEX: accepted iff the visible rows satisfy it; from then on it is a constraint of the table
TIndex == Is("stmt") /\ Ev.q.k = "index" /\ Step
          /\ UNCHANGED <<committed, snap, sess>>
          /\ LET t == Tx(Ev)
                 known == HasTab(t, Ev.q.tbl)
                 i == IF known THEN TheTab(t, Ev.q.tbl) ELSE 0
                 dup == IF known THEN BreaksUnique([tabs[i] EXCEPT !.uniq = <<Ev.q.cols>>], <<>>, TabRows(t, tabs[i])) ELSE TRUE
             IN /\ (IF dup THEN Ev.out.k = "err" ELSE Ok(Ev.out)) = TRUE
                /\ tabs' = (IF dup THEN tabs ELSE [tabs EXCEPT ![i].uniq = Append(@, Ev.q.cols)])

\* a statement the specification has no semantics for (hostile input, C16).  It must come back with a result or an
\* error; the driver only issues it where it cannot leave a trace (autocommit: text that cannot be DML/DDL;
\* session: the session is rolled back right after), so the state stays as it is and later reads check that.
TOpaque == Is("stmt") /\ Ev.q.k = "opaque" /\ Step
           /\ (IF Ev.s = 0 THEN Ev.out.k \in {"rows", "err"} ELSE Ev.out.k \in {"rows", "count", "ddl", "err"}) = TRUE
           /\ UNCHANGED dbvars

\* ideal: first committer wins; the code never validates write sets (finding NoWriteSetValidation)
Wrote(t, r) == IF t \in r.del THEN TRUE ELSE \E i \in 1..(Len(r.vers) - 1) : r.vers[i].by = t   \* deletes and updates (not the creating version)
Conflict(t) == \E i \in 1..Len(tabs) : \E j \in 1..Len(tabs[i].rows) :
                 /\ Wrote(t, tabs[i].rows[j])
                 /\ \E u \in committed : u # t /\ u \notin snap[t] /\ Wrote(u, tabs[i].rows[j]) /\ tabs[i].rows[j].cr # u
TCommit == Is("commit") /\ Step
           /\ LET t == Tx(Ev) IN
              /\ (IF Conflict(t) /\ "NoWriteSetValidation" \notin Dev THEN Ev.out.k = "err" ELSE Ok(Ev.out)) = TRUE
              /\ Finish(t, Ok(Ev.out))
           /\ sess' = Del(sess, Ev.s) /\ UNCHANGED tabs

TRollback == Is("rollback") /\ Step /\ Finish(Tx(Ev), FALSE) /\ sess' = Del(sess, Ev.s) /\ UNCHANGED tabs

\* VACUUM (and close/reopen) end every open transaction; neither may change what anyone reads afterwards
TVacuum == Is("vacuum") /\ Step /\ (Ok(Ev.out) = TRUE)
           /\ tabs' = Vacuumed /\ snap' = <<>> /\ sess' = <<>> /\ UNCHANGED committed
\* a session that VACUUM aborted may still be used by its client: whatever its statements answer, they leave no trace,
\* and its COMMIT fails
TZombie  == Is("zombie") /\ Step /\ UNCHANGED dbvars
TZCommit == Is("zcommit") /\ Step /\ (Ev.out.k = "err") /\ UNCHANGED dbvars
TReopen == Is("reopen") /\ Step /\ (Ok(Ev.out) = TRUE)
           /\ snap' = <<>> /\ sess' = <<>> /\ UNCHANGED <<tabs, committed>>
\* C13 "storage stays bounded": file size (KiB) after each update/vacuum cycle stops growing from the third cycle on
TSizes == Is("sizes") /\ Step /\ (\A i \in 3..Len(Ev.bytes) : Ev.bytes[i] <= Ev.bytes[i - 1]) /\ UNCHANGED dbvars
TNoop   == (Is("flush") \/ Is("analyze")) /\ Step /\ (Ok(Ev.out) = TRUE) /\ UNCHANGED dbvars

(* ---- crash images (C01 C02 C08): the database files as they were after the k-th write of the engine, opened by a
   fresh process.  `after` the events recorded so far, with possibly one call in flight (its transaction `tx`), the
   reopened database must open, and every table must read exactly the committed state - with or without the
   in-flight transaction, as a whole.  A crash read does not change the state: the history simply goes on. ---- *)
SeesC(C, w) == w \in C
RowVisC(C, r) == IF r.cr \notin C THEN FALSE ELSE IF r.del \cap C # {} THEN FALSE
                 ELSE \E i \in 1..Len(r.vers) : r.vers[i].by \in C
RowValsC(C, r) == SelectSeq(r.vers, LAMBDA v : v.by \in C)[1].vals
TabVisC(C, o) == o.cr \in C /\ o.drop \cap C = {}
TabRowsC(C, o) == LET vis == SelectSeq(o.rows, LAMBDA r : RowVisC(C, r)) IN [i \in 1..Len(vis) |-> RowValsC(C, vis[i])]
\* tbls: sequence of [name, out] where out is [k |-> "rows", rows |-> ..] or [k |-> "err"]
MatchesC(C, tbls) ==
  \A i \in 1..Len(tbls) :
    LET cand == {j \in 1..Len(tabs) : tabs[j].name = tbls[i].name /\ TabVisC(C, tabs[j])} IN
    IF cand = {} THEN tbls[i].out.k = "err"
    ELSE IF tbls[i].out.k # "rows" THEN FALSE
    ELSE LET exp == TabRowsC(C, tabs[CHOOSE j \in cand : TRUE]) obs == tbls[i].out.rows IN
         \* a big table is read by id only (proj; ids are distinct in those workloads): same ids, same number of rows
         IF tbls[i].proj THEN Len(exp) = Len(obs) /\ {exp[j][1] : j \in 1..Len(exp)} = {obs[j][1] : j \in 1..Len(obs)}
         ELSE BagEq(exp, obs)
\* finding CheckpointNotAtomic: a crash inside Pager::flush (checkpoint, VACUUM), after dirty pages were written and
\* before the log was truncated, replays the log on top of pages that already contain its effects (logical redo is
\* not idempotent): the outcome of such a crash point is not constrained while the finding is recorded
\* finding DropNotAtomic: DROP TABLE frees the table's pages (written at once) before its transaction commits; a crash
\* inside the DROP call finds the table neither as it was nor gone
Unconstrained(e) == \/ "CheckpointNotAtomic" \in Dev /\ e.during \in {"flush", "vacuum"}
                    \/ "DropNotAtomic" \in Dev /\ e.during = "dropddl"
CrashOk(e) ==
  IF Unconstrained(e) THEN TRUE
  ELSE IF ~Ok(e.open) THEN FALSE                                                   \* C08: the database always reopens
  ELSE IF MatchesC(committed, e.tables) THEN TRUE                             \* C01 + C02: exactly the acknowledged transactions
  ELSE IF e.inflight THEN MatchesC(committed \ {e.tx}, e.tables) ELSE FALSE   \* ... or without the one whose commit was in progress
\* C08: opening the recovered database again changes nothing, and it is usable (a probe table can be created, written, read)
SameTables(a, b) == Len(a) = Len(b) /\ \A i \in 1..Len(a) :
                      a[i].name = b[i].name /\ a[i].out.k = b[i].out.k
                      /\ (IF a[i].out.k = "rows" THEN BagEq(a[i].out.rows, b[i].out.rows) ELSE TRUE)
ProbeOk(p) == IF Len(p) # 3 THEN FALSE
              ELSE Ok(p[1]) /\ Ok(p[2]) /\ p[3].k = "rows" /\ p[3].rows = << <<I(1), I(2)>> >>
RepeatOk(e) == IF Unconstrained(e) THEN TRUE
               ELSE Ok(e.again_open) /\ (IF e.again_same THEN TRUE ELSE SameTables(e.tables, e.again)) /\ ProbeOk(e.probe)
\* C08: the recovered file is structurally sound (the audit of the whole file found nothing: trees well-formed, no page
\* owned twice), and a crash inside recovery itself (depth 2: the files as they were after the j-th write of that
\* recovery, opened by a third process) opens, is sound and holds the same contents as the uninterrupted recovery
SoundOk(e) == IF Unconstrained(e) \/ ~Ok(e.open) THEN TRUE ELSE e.sound = <<>>
NestedOk(e) == IF Unconstrained(e) \/ ~Ok(e.open) THEN TRUE
               ELSE \A i \in 1..Len(e.nested) : LET n == e.nested[i] IN
                      \* recovery ends with a checkpoint; a crash inside it is a crash inside Pager::flush (CheckpointNotAtomic)
                      IF "CheckpointNotAtomic" \in Dev /\ n.inflush THEN TRUE
                      ELSE /\ Ok(n.open) /\ n.sound = <<>>
                           /\ (IF n.same THEN TRUE ELSE SameTables(e.tables, n.tables))
\* which requirement a rejected crash read breaks is printed (a rejected trace has no counterexample to read it from)
Chk(name, c) == IF c = TRUE THEN TRUE ELSE Print(<<"CRASHREAD-FAILED", name, Ev.k>>, FALSE)
TCrashRead == Is("crashread") /\ Step /\ Chk("contents", CrashOk(Ev)) /\ Chk("reopen", RepeatOk(Ev)) /\ Chk("sound", SoundOk(Ev)) /\ Chk("nested", NestedOk(Ev)) /\ UNCHANGED dbvars

TNext == TCrashRead \/ TReset \/ TAlter \/ TBegin \/ TSelect \/ TDml \/ TBatch \/ TCreate \/ TDrop \/ TIndex \/ TOpaque
         \/ TCommit \/ TRollback \/ TVacuum \/ TZombie \/ TZCommit \/ TReopen \/ TNoop \/ TSizes
TSpec == TInit /\ [][TNext]_tvars

(* C07 on the committed state, evaluated after every step *)
CommittedRows(o) == SelectSeq(o.rows, LAMBDA r : r.cr \in committed /\ r.del \cap committed = {}
                                                 /\ \E i \in 1..Len(r.vers) : r.vers[i].by \in committed)
CVals(r) == SelectSeq(r.vers, LAMBDA v : v.by \in committed)[1].vals
UniqueHolds == \A i \in 1..Len(tabs) : (tabs[i].cr \in committed /\ tabs[i].drop \cap committed = {}) =>
                 LET rs == CommittedRows(tabs[i]) IN
                 \A u \in 1..Len(tabs[i].uniq) : \A a, b \in 1..Len(rs) :
                    (a # b /\ ~KeyNull(CVals(rs[a]), tabs[i].uniq[u])) => Key(CVals(rs[a]), tabs[i].uniq[u]) # Key(CVals(rs[b]), tabs[i].uniq[u])

Accepted == IF TLCGet("stats").diameter - 1 = Len(Rec) THEN TRUE
            ELSE Print(<<"REJECTED", TLCGet("stats").diameter, Rec[TLCGet("stats").diameter]>>, FALSE)
=============================================================================
