SPECIFICATION Spec
CONSTANTS
  Tx = {1, 2}
  Keys = {"a", "b"}
  Vals = {1, 2}
  MaxOps = 2
  Dev = {"UpdateStampsCreator"}
INVARIANTS RollbackInvisible
CHECK_DEADLOCK FALSE
