SPECIFICATION TSpec
CONSTANTS Dev = {}
INVARIANT Partition
POSTCONDITION Accepted
CHECK_DEADLOCK FALSE
