-------------------------------- MODULE Latch --------------------------------
(* The locking protocol behind concurrent statements (C14): one global pager lock taken for every page access              *)
(* (Btree::acquire_with_accessor: `self.pager.write().read_page(id)`), page latches (ReadLatch / WriteLatch) held until     *)
(* the statement's traversal is done, pages latched top-down.  The rule that keeps it live: the pager lock is released      *)
(* before a thread waits for a latch, while a thread that holds latches may come back for the pager lock.                  *)
(* TLC checks that every statement finishes (no deadlock) for all interleavings of a few threads and pages; holding the     *)
(* pager lock across the latch wait (deviation PagerHeldAcrossLatch) must produce a deadlock.                               *)
(* Latches are writer-preferring (parking_lot): a writer that waits for a page keeps new readers out (wq).  A reader may     *)
(* latch a page it already holds again (a scan keeps its cursor's leaf latched and latches it once more to decode a row):    *)
(* that second acquisition must not queue behind a waiting writer (read_arc_recursive) - when it does (deviation             *)
(* RecursiveReadQueuesBehindWriter, the code before fix 0f47055) scan and writer wait for each other for ever.               *)
EXTENDS Integers, Sequences, FiniteSets, TLC
CONSTANTS Threads, Pages, Dev
VARIABLES pager, readers, writer, pc, plan, held, wq
lvars == <<pager, readers, writer, pc, plan, held, wq>>
Modes == {"r", "w"}
\* a statement latches an ascending run of pages (root towards leaves), each in some mode
\* ... or the same page twice in read mode (re-latch)
Plans == {s \in UNION {[1..n -> Pages \X Modes] : n \in 1..2} :
            \A i \in 1..(Len(s) - 1) : s[i][1] < s[i + 1][1] \/ (s[i][1] = s[i + 1][1] /\ s[i][2] = "r" /\ s[i + 1][2] = "r")}
Init == /\ pager = 0 /\ readers = [p \in Pages |-> {}] /\ writer = [p \in Pages |-> 0]
        /\ pc = [t \in Threads |-> "want"] /\ plan \in [Threads -> Plans] /\ held = [t \in Threads |-> {}]
        /\ wq = [p \in Pages |-> {}]
\* a fresh read queues behind waiting writers; a recursive one does not (unless the deviation is on)
Recursive(t, p) == t \in readers[p] /\ "RecursiveReadQueuesBehindWriter" \notin Dev
Compatible(t, p, m) == IF m = "r" THEN writer[p] \in {0, t} /\ (wq[p] \ {t} = {} \/ Recursive(t, p))
                       ELSE writer[p] \in {0, t} /\ readers[p] \subseteq {t}
Grant(t, p, m) == /\ IF m = "r" THEN readers' = [readers EXCEPT ![p] = @ \cup {t}] /\ UNCHANGED writer
                     ELSE writer' = [writer EXCEPT ![p] = t] /\ UNCHANGED readers
                  /\ held' = [held EXCEPT ![t] = @ \cup {p}]
                  /\ plan' = [plan EXCEPT ![t] = Tail(@)]
                  /\ wq' = [wq EXCEPT ![p] = @ \ {t}]
TakePager(t) == pc[t] = "want" /\ pager = 0 /\ pager' = t /\ pc' = [pc EXCEPT ![t] = "inpager"] /\ UNCHANGED <<readers, writer, plan, held, wq>>
\* the frame is fetched; the guard is dropped before the latch is requested
LeavePager(t) == /\ "PagerHeldAcrossLatch" \notin Dev
                 /\ pc[t] = "inpager" /\ pager' = 0 /\ pc' = [pc EXCEPT ![t] = "latch"] /\ UNCHANGED <<readers, writer, plan, held>>
                 \* a writer that has to wait is queued from now on
                 /\ wq' = IF Head(plan[t])[2] = "w" THEN [wq EXCEPT ![Head(plan[t])[1]] = @ \cup {t}] ELSE wq
Latch(t) == LET p == Head(plan[t])[1]  m == Head(plan[t])[2] IN
            /\ pc[t] = IF "PagerHeldAcrossLatch" \in Dev THEN "inpager" ELSE "latch"
            /\ Compatible(t, p, m) /\ Grant(t, p, m)
            /\ pager' = IF "PagerHeldAcrossLatch" \in Dev THEN 0 ELSE pager
            /\ pc' = [pc EXCEPT ![t] = IF Len(plan[t]) > 1 THEN "want" ELSE "work"]
\* with its latches held the statement goes back to the pager (allocation, overflow pages, the log) and then finishes
Work(t) == pc[t] = "work" /\ pager = 0 /\ pager' = t /\ pc' = [pc EXCEPT ![t] = "finish"] /\ UNCHANGED <<readers, writer, plan, held, wq>>
Finish(t) == /\ pc[t] = "finish" /\ pager' = 0 /\ pc' = [pc EXCEPT ![t] = "done"]
             /\ readers' = [p \in Pages |-> readers[p] \ {t}] /\ writer' = [p \in Pages |-> IF writer[p] = t THEN 0 ELSE writer[p]]
             /\ held' = [held EXCEPT ![t] = {}] /\ UNCHANGED <<plan, wq>>
AllDone == (\A t \in Threads : pc[t] = "done") /\ UNCHANGED lvars
Next == (\E t \in Threads : TakePager(t) \/ LeavePager(t) \/ Latch(t) \/ Work(t) \/ Finish(t)) \/ AllDone
Spec == Init /\ [][Next]_lvars /\ WF_lvars(Next)
Exclusive == \A p \in Pages : writer[p] # 0 => readers[p] \subseteq {writer[p]}
OnePagerHolder == pager \in Threads \cup {0}
EveryStatementFinishes == <>(\A t \in Threads : pc[t] = "done")
=============================================================================
