-------------------------------- MODULE Tuple --------------------------------
(* One stored row of AxmosDB (storage/tuple.rs) and its readers (C18).            *)
(*                                                                                 *)
(* Abstract state  : vs  - the row's versions, newest first, each [vals, by]        *)
(*                   del - the transaction whose delete mark the row carries (0=no) *)
(* Stored state    : head (newest values), hby / hver (its stamp), deltas - reverse *)
(*                   deltas newest first, each [by, ver, nulls, old]: the stamp of  *)
(*                   the version it restores, that version's FULL null set and the  *)
(*                   old values of the changed columns only (write_delta).          *)
(* One action per entry point of the code: Build (TupleBuilder::build), Update      *)
(* (add_version_with), Delete / ClearDelete, Trim (vaccum_with).  Readers are the    *)
(* operator Walk (parse_for_snapshot); what a reader is entitled to is Entitled.     *)
(* Values are abstract ids (0 = NULL); the harness instantiates them per column type.*)
EXTENDS Integers, Sequences, FiniteSets, TLC
CONSTANTS NV,       \* number of value columns
          Val,      \* non-NULL value ids (positive naturals)
          Tid,      \* transaction ids (positive naturals)
          MaxUpd,   \* bound on the number of updates (model checking only)
          Dev       \* deviations of the shipped code that are modelled exactly
NULL == 0
Cols == 1..NV
Min(S) == CHOOSE x \in S : \A y \in S : x <= y

VARIABLES vs, del, creator, head, hby, hver, deltas, built
vars == <<vs, del, creator, head, hby, hver, deltas, built>>

(* -------------------------------- snapshots -------------------------------- *)
\* [xid, xmax (0 = the first snapshot of the system: unbounded), active, aborted]
CB(t, s)   == (s.xmax = 0 \/ t <= s.xmax) /\ t \notin s.active /\ t \notin s.aborted   \* is_committed_before_snapshot
Sees(t, s) == CB(t, s) \/ t = s.xid

(* what the reader is entitled to: nothing (<<>>) or exactly one version (<<vals>>) *)
Entitled(versions, d, s) ==
  IF d # 0 /\ Sees(d, s) THEN <<>>
  ELSE LET idx == {i \in 1..Len(versions) : Sees(versions[i].by, s)} IN
       IF idx = {} THEN <<>> ELSE <<versions[Min(idx)].vals>>

(* ------------------------- the stored chain and its walk ------------------------- *)
Restore(cur, d) == [i \in Cols |-> IF i \in d.nulls THEN NULL ELSE IF i \in DOMAIN d.old THEN d.old[i] ELSE cur[i]]

RECURSIVE Chain(_, _)
\* all versions the chain encodes, newest first
Chain(cur, ds) == IF ds = <<>> THEN <<cur>> ELSE <<cur>> \o Chain(Restore(cur, Head(ds)), Tail(ds))

RECURSIVE Scan(_, _, _, _)
\* the delta walk: apply deltas until one restores a version whose stamp qualifies
Scan(cur, ds, s, own) ==
  IF ds = <<>> THEN <<>>
  ELSE LET d == Head(ds)  v == Restore(cur, d) IN
       IF CB(d.by, s) \/ (own /\ d.by = s.xid) THEN <<v>> ELSE Scan(v, Tail(ds), s, own)

\* parse_for_snapshot.  Shipped code: a reader's own delete is noticed on the newest version only, so the walk goes on
\* into the deltas (OwnDeleteOfUpdatedRow), and the delta walk does not recognise the reader's own versions.
Walk(s) ==
  IF del # 0 /\ CB(del, s) THEN <<>>
  ELSE IF Sees(hby, s) /\ ~(del # 0 /\ Sees(del, s)) THEN <<head>>
  ELSE IF del # 0 /\ del = s.xid /\ "OwnDeleteOfUpdatedRow" \notin Dev THEN <<>>
  ELSE Scan(head, deltas, s, "DeltaWalkIgnoresOwn" \notin Dev)

(* ---------------------------------- actions ---------------------------------- *)
Init == /\ vs = <<>> /\ del = 0 /\ creator = 0 /\ head = [i \in Cols |-> NULL] /\ hby = 0 /\ hver = 0
        /\ deltas = <<>> /\ built = FALSE

Build(vals, t) ==
  /\ ~built /\ built' = TRUE
  /\ vs' = << [vals |-> vals, by |-> t] >> /\ del' = 0 /\ creator' = t
  /\ head' = vals /\ hby' = t /\ hver' = 0 /\ deltas' = <<>>

\* add_version_with(modified, new_xmin): ch is the set of columns named in `modified`, nv their new values.
\* Shipped code stamps the new version with the row creator's id (UpdateStampsCreator) and drops the delete mark.
Update(ch, nv, t) ==
  /\ built /\ ch # {} /\ ch \subseteq Cols
  /\ LET stamp == IF "UpdateStampsCreator" \in Dev THEN creator ELSE t
         new   == [i \in Cols |-> IF i \in ch THEN nv[i] ELSE head[i]]
         d     == [by |-> hby, ver |-> hver, nulls |-> {i \in Cols : head[i] = NULL}, old |-> [i \in ch |-> head[i]]]
     IN /\ vs' = << [vals |-> new, by |-> stamp] >> \o vs
        /\ head' = new /\ hby' = stamp /\ hver' = (hver + 1) % 256
        /\ deltas' = <<d>> \o deltas
  /\ del' = 0 /\ UNCHANGED <<creator, built>>

Delete(t)   == built /\ del' = t /\ UNCHANGED <<vs, creator, head, hby, hver, deltas, built>>
ClearDelete == built /\ del' = 0 /\ UNCHANGED <<vs, creator, head, hby, hver, deltas, built>>

\* vaccum_with(horizon): deltas are kept while their stamp is >= horizon; the first older one and everything after it go.
\* (Ideal rule, Dev without TrimCutsAtFirstOld: the first delta below the horizon is the version every reader at or above
\* the horizon may still need when the newer ones are not visible to it; it is kept and the cut comes after it.)
KeepLen(h) == LET old == {i \in 1..Len(deltas) : deltas[i].by < h} IN
              IF old = {} THEN Len(deltas)
              ELSE IF "TrimCutsAtFirstOld" \in Dev THEN Min(old) - 1 ELSE Min(old)
Trim(h) ==
  /\ built
  /\ LET k == KeepLen(h) IN /\ deltas' = SubSeq(deltas, 1, k)
                            /\ vs' = SubSeq(vs, 1, k + 1)
  /\ UNCHANGED <<del, creator, head, hby, hver, built>>

(* --------------------------------- model checking --------------------------------- *)
Vecs == [Cols -> Val \cup {NULL}]
Next == \/ \E v \in Vecs, t \in Tid : Build(v, t)
        \/ hver < MaxUpd /\ \E ch \in SUBSET Cols, nv \in Vecs, t \in Tid : Update(ch, nv, t)
        \/ \E t \in Tid : Delete(t)
        \/ del # 0 /\ ClearDelete
        \/ \E h \in Tid \cup {Min(Tid) + Cardinality(Tid)} : Trim(h)
Spec == Init /\ [][Next]_vars

MaxT  == Min(Tid) + Cardinality(Tid)          \* one id beyond the writers: a pure reader
Snaps == {s \in [xid : Tid \cup {MaxT}, xmax : 0..MaxT, active : SUBSET Tid, aborted : SUBSET Tid] :
            /\ s.active \cap s.aborted = {}
            /\ (s.xmax # 0 => s.xid > s.xmax)                 \* a snapshot is taken at begin: nothing newer has committed
            /\ s.xid \notin s.aborted}
\* snapshots of readers that exist while the horizon is h: every transaction below h has committed
AboveF == [h \in Tid \cup {MaxT} |-> {s \in Snaps : s.xid >= h /\ (s.xmax = 0 \/ s.xmax >= h - 1) /\ \A t \in Tid : t < h => t \notin s.active \cup s.aborted}]
Above(h) == AboveF[h]

TypeOK == /\ built => Len(vs) = Len(deltas) + 1 /\ vs[1].vals = head /\ vs[1].by = hby
\* the reverse deltas encode exactly the versions (values and NULL flags) of the abstract row
ChainRefines == built => Chain(head, deltas) = [i \in 1..Len(vs) |-> vs[i].vals]
StampsRefine == built => \A i \in 1..Len(deltas) : deltas[i].by = vs[i + 1].by
\* every reader decodes what it is entitled to (holds for Dev = {})
WalkIsEntitled == built => \A s \in Snaps : Walk(s) = Entitled(vs, del, s)
\* trimming with a horizon alters nothing that a reader at or above the horizon decodes.  Checked on every transition
\* (ACTION_CONSTRAINT, so that TLC evaluates it on the state pair without building a behaviour graph).
TrimPreserves == \A h \in Tid \cup {MaxT} : (Len(deltas') < Len(deltas) /\ Trim(h)) => \A s \in Above(h) :
                    Assert(Entitled(vs', del', s) = Entitled(vs, del, s), <<"PROPERTY-VIOLATED", "TrimPreserves", h, s, vs, del>>)
TrimPreservesWalk == \A h \in Tid \cup {MaxT} : (Len(deltas') < Len(deltas) /\ Trim(h)) => \A s \in Above(h) :
                    del # s.xid => Assert(Walk(s)' = Walk(s), <<"PROPERTY-VIOLATED", "TrimPreservesWalk", h, s, vs, del>>)
=============================================================================
