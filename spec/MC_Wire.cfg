SPECIFICATION Spec
INVARIANTS RoundTrip Total FrameAllocBounded Emit
CHECK_DEADLOCK FALSE
