SPECIFICATION Spec
CONSTANTS
  Tx = {1, 2}
  Keys = {"a", "b"}
  Vals = {1, 2}
  MaxOps = 2
  Dev = {"NoWriteSetValidation"}
INVARIANTS FirstCommitterWins
CHECK_DEADLOCK FALSE
