SPECIFICATION Spec
CONSTANTS Pages = {1, 2, 3}  Vals = {1, 2}  Cap = 2  MaxPins = 2  Dev = {"EvictDropsDirty"}
INVARIANTS Coherent Bounded
CHECK_DEADLOCK FALSE
