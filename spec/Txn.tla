------------------------------- MODULE Txn -------------------------------
(* MVCC store of AxmosDB at the level the SQL API exposes it.               *)
(* Physical rows carry a chain of versions (newest first, each stamped with *)
(* its writer) and deleters; a transaction reads through the snapshot taken *)
(* at Begin.  Ghost variables record what each transaction asked for, so    *)
(* that the properties are stated against an independent reference.         *)
EXTENDS Naturals, Sequences, FiniteSets, TLC
CONSTANTS Tx, Keys, Vals, MaxOps, Dev

VARIABLES st,        \* Tx -> "idle" | "active" | "committed" | "aborted"
          snap,      \* Tx -> set of transactions committed when it began
          rows,      \* sequence of physical rows [k, vers : Seq([val, by]), del : SUBSET Tx]
          ops,       \* ghost: Tx -> sequence of [op, k, v] the transaction performed successfully
          commitOrder \* ghost: sequence of committed transactions
vars == <<st, snap, rows, ops, commitOrder>>

Stamp   == "UpdateStampsCreator" \in Dev    \* storage/tuple.rs:1019  new version stamped with the row creator
NoOcc   == "NoWriteSetValidation" \in Dev   \* coordinator.rs:480     record_write has no caller

Init == /\ st = [t \in Tx |-> "idle"] /\ snap = [t \in Tx |-> {}]
        /\ rows = <<>> /\ ops = [t \in Tx |-> <<>>] /\ commitOrder = <<>>

Committed == {t \in Tx : st[t] = "committed"}

(* visibility of writer w to reader t *)
Sees(t, w) == w = t \/ w \in snap[t]

(* newest version of physical row r that t may see; <<>> if none *)
RECURSIVE FirstVisible(_, _)
FirstVisible(t, vs) == IF vs = <<>> THEN <<>>
                       ELSE IF Sees(t, Head(vs).by) THEN <<Head(vs)>> ELSE FirstVisible(t, Tail(vs))
RowVisible(t, r) == /\ FirstVisible(t, r.vers) # <<>>
                    /\ \A d \in r.del : ~Sees(t, d)
View(t) == { <<rows[i].k, FirstVisible(t, rows[i].vers)[1].val>> : i \in {j \in 1..Len(rows) : RowVisible(t, rows[j])} }
HasKey(t, k) == \E p \in View(t) : p[1] = k

(* ---------- reference semantics on plain maps ---------- *)
ApplyOp(m, o) ==
  CASE o.op = "ins" -> IF \E p \in m : p[1] = o.k THEN m ELSE m \cup {<<o.k, o.v>>}
    [] o.op = "upd" -> { IF p[1] = o.k THEN <<o.k, o.v>> ELSE p : p \in m }
    [] o.op = "del" -> { p \in m : p[1] # o.k }
RECURSIVE ApplyOps(_, _)
ApplyOps(m, s) == IF s = <<>> THEN m ELSE ApplyOps(ApplyOp(m, Head(s)), Tail(s))
RECURSIVE ApplyTxs(_, _, _)
ApplyTxs(m, order, allowed) ==
  IF order = <<>> THEN m
  ELSE ApplyTxs(IF Head(order) \in allowed THEN ApplyOps(m, ops[Head(order)]) ELSE m, Tail(order), allowed)
Expected(t) == ApplyOps(ApplyTxs({}, commitOrder, snap[t]), ops[t])
CommittedView == ApplyTxs({}, commitOrder, Tx)

(* ---------- actions ---------- *)
Begin(t) == /\ st[t] = "idle"
            /\ st' = [st EXCEPT ![t] = "active"]
            /\ snap' = [snap EXCEPT ![t] = Committed]
            /\ UNCHANGED <<rows, ops, commitOrder>>

Log(t, o) == ops' = [ops EXCEPT ![t] = Append(@, o)]
Room(t) == Len(ops[t]) < MaxOps

Insert(t, k, v) ==
  /\ st[t] = "active" /\ Room(t) /\ ~HasKey(t, k)             \* k is UNIQUE: rejected otherwise
  /\ rows' = Append(rows, [k |-> k, vers |-> <<[val |-> v, by |-> t]>>, del |-> {}])
  /\ Log(t, [op |-> "ins", k |-> k, v |-> v])
  /\ UNCHANGED <<st, snap, commitOrder>>

Update(t, k, v) ==
  /\ st[t] = "active" /\ Room(t) /\ HasKey(t, k)
  /\ rows' = [i \in 1..Len(rows) |->
                IF rows[i].k = k /\ RowVisible(t, rows[i])
                THEN [rows[i] EXCEPT !.vers = <<[val |-> v,
                                                 by  |-> IF Stamp THEN rows[i].vers[Len(rows[i].vers)].by ELSE t]>> \o @]
                ELSE rows[i]]
  /\ Log(t, [op |-> "upd", k |-> k, v |-> v])
  /\ UNCHANGED <<st, snap, commitOrder>>

Delete(t, k) ==
  /\ st[t] = "active" /\ Room(t) /\ HasKey(t, k)
  /\ rows' = [i \in 1..Len(rows) |->
                IF rows[i].k = k /\ RowVisible(t, rows[i]) THEN [rows[i] EXCEPT !.del = @ \cup {t}] ELSE rows[i]]
  /\ Log(t, [op |-> "del", k |-> k, v |-> 0])
  /\ UNCHANGED <<st, snap, commitOrder>>

WriteSet(t) == { ops[t][i].k : i \in 1..Len(ops[t]) }
Concurrent(t, u) == u # t /\ st[u] = "committed" /\ u \notin snap[t]
Conflict(t) == \E u \in Tx : Concurrent(t, u) /\ WriteSet(t) \cap WriteSet(u) # {}

Commit(t) ==
  /\ st[t] = "active"
  /\ IF Conflict(t) /\ ~NoOcc
     THEN /\ st' = [st EXCEPT ![t] = "aborted"] /\ UNCHANGED commitOrder          \* first committer wins
     ELSE /\ st' = [st EXCEPT ![t] = "committed"] /\ commitOrder' = Append(commitOrder, t)
  /\ UNCHANGED <<snap, rows, ops>>

Abort(t) == /\ st[t] = "active"
            /\ st' = [st EXCEPT ![t] = "aborted"]
            /\ UNCHANGED <<snap, rows, ops, commitOrder>>

Next == \E t \in Tx : \/ Begin(t) \/ Commit(t) \/ Abort(t)
                      \/ \E k \in Keys : Delete(t, k) \/ \E v \in Vals : Insert(t, k, v) \/ Update(t, k, v)
Spec == Init /\ [][Next]_vars

(* ---------- properties ---------- *)
SnapshotRead       == \A t \in Tx : st[t] = "active" => View(t) = Expected(t)            \* C04
CommittedVers(r)   == SelectSeq(r.vers, LAMBDA x : x.by \in Committed)
FreshVisible(r)    == CommittedVers(r) # <<>> /\ r.del \cap Committed = {}
FreshView          == { <<rows[i].k, CommittedVers(rows[i])[1].val>> : i \in { j \in 1..Len(rows) : FreshVisible(rows[j]) } }
RollbackInvisible  == FreshView = CommittedView                                          \* C03
FirstCommitterWins == \A a, b \in Committed : a # b /\ a \notin snap[b] /\ b \notin snap[a]
                          => WriteSet(a) \cap WriteSet(b) = {}                            \* C04
UniqueHolds        == \A p, q \in CommittedView : p[1] = q[1] => p = q                   \* C07
=============================================================================
