SPECIFICATION MCSpec
CONSTANTS
  Cap0 = 3
  Cap = 4
  Sizes = {1, 2, 4}
  MaxRecs = 6
  Dev = {"ForceRewritesFromBlock1"}
INVARIANTS ReadBackExact
CHECK_DEADLOCK FALSE
