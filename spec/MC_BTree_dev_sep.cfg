SPECIFICATION Spec
CONSTANTS Keys = {1, 2, 3, 4, 5}  Vals = {1, 2}  Cap = 2  Dev = {"SeparatorIsLastOfLeft"}
INVARIANT Sound
CHECK_DEADLOCK FALSE
