SPECIFICATION Spec
CONSTANTS Dev = {"NaNNotReflexive"}  Ranks = {1, 2, 3}
INVARIANT Laws
CHECK_DEADLOCK FALSE
