------------------------------- MODULE SqlRel -------------------------------
(* Reference semantics of SELECT over bags of rows (C05/C06): joins, WHERE,      *)
(* projection, GROUP BY + aggregates, DISTINCT, ORDER BY, LIMIT/OFFSET.          *)
(* A row is a sequence of SqlEval values; a table is a sequence of rows whose    *)
(* order carries no meaning.  A query is a record                                *)
(*   [from  |-> << [t |-> name, n |-> #cols, jk |-> "first"|"inner"|"left"|"right"|"full"|"cross", on |-> expr] .. >>, *)
(*    where |-> expr, agg |-> BOOLEAN, group |-> <<expr..>>,                      *)
(*    proj  |-> << [k |-> "e", e |-> expr] | [k |-> "grp", i |-> n] | [k |-> "agg", f |-> fn, e |-> expr] .. >>, *)
(*    distinct |-> BOOLEAN, order |-> << [i |-> outcol, asc |-> BOOLEAN] .. >>,   *)
(*    limit |-> n (-1 = none), offset |-> n]                                       *)
EXTENDS SqlEval

TrueE == [k |-> "lit", v |-> B(TRUE)]
NullRow(n) == [i \in 1..n |-> NullV]
Range(s) == {s[i] : i \in 1..Len(s)}
RECURSIVE Flatten(_)
Flatten(ss) == IF ss = <<>> THEN <<>> ELSE Head(ss) \o Flatten(Tail(ss))

(* ---------------- joins (left-deep) ---------------- *)
JoinStep(L, nl, R, nr, kind, on) ==
  LET match(l, r) == IsTrue(Eval(on, l \o r))
      perLeft == [i \in 1..Len(L) |->
                    LET m == SelectSeq([j \in 1..Len(R) |-> L[i] \o R[j]], LAMBDA x : IsTrue(Eval(on, x)))
                    IN IF m = <<>> /\ kind \in {"left", "full"} THEN <<L[i] \o NullRow(nr)>> ELSE m]
      unmatchedR == SelectSeq(R, LAMBDA r : \A i \in 1..Len(L) : ~match(L[i], r))
  IN IF kind = "cross" THEN Flatten([i \in 1..Len(L) |-> [j \in 1..Len(R) |-> L[i] \o R[j]]])
     ELSE Flatten(perLeft) \o (IF kind \in {"right", "full"}
                               THEN [j \in 1..Len(unmatchedR) |-> NullRow(nl) \o unmatchedR[j]] ELSE <<>>)

RECURSIVE JoinAll(_, _, _, _, _)
\* acc: rows so far (width w); fr: remaining from-items; T: name -> rows
JoinAll(acc, w, fr, T, first) ==
  IF fr = <<>> THEN acc
  ELSE LET f == Head(fr) IN
       IF first THEN JoinAll(T[f.t], f.n, Tail(fr), T, FALSE)
       ELSE JoinAll(JoinStep(acc, w, T[f.t], f.n, f.jk, f.on), w + f.n, Tail(fr), T, FALSE)

Source(q, T) == SelectSeq(JoinAll(<<>>, 0, q.from, T, TRUE), LAMBDA r : IsTrue(Eval(q.where, r)))
\* evaluation errors (division by zero) make the whole statement fail
WhereErr(q, T) == \E r \in Range(JoinAll(<<>>, 0, q.from, T, TRUE)) : IsErr(Eval(q.where, r))

(* ---------------- aggregates ---------------- *)
RECURSIVE SumV(_)
SumV(vs) == IF vs = <<>> THEN 0 ELSE Twice(Head(vs)) + SumV(Tail(vs))      \* twice the sum
RECURSIVE MinV(_, _)
MinV(vs, best) == IF vs = <<>> THEN best
                  ELSE MinV(Tail(vs), IF Cmp3(Head(vs), best) = -1 THEN Head(vs) ELSE best)
RECURSIVE MaxV(_, _)
MaxV(vs, best) == IF vs = <<>> THEN best
                  ELSE MaxV(Tail(vs), IF Cmp3(Head(vs), best) = 1 THEN Head(vs) ELSE best)

\* value of one aggregate over the rows of a group; AvgOpaque marks a quotient TLC cannot carry
Agg(f, e, rows) ==
  LET vals == [i \in 1..Len(rows) |-> Eval(e, rows[i])]
      nn   == SelectSeq(vals, LAMBDA v : ~IsNull(v))
  IN CASE f = "count*" -> I(Len(rows))
       [] f = "count"  -> I(Len(nn))
       [] f = "sum"    -> IF nn = <<>> THEN NullV ELSE F2(SumV(nn))                         \* SUM yields DOUBLE
       [] f = "avg"    -> IF nn = <<>> THEN NullV
                          ELSE IF SumV(nn) % Len(nn) = 0 THEN F2(TDiv(SumV(nn), Len(nn))) ELSE [t |-> "x", v |-> "avg", fl |-> SumV(nn) \div Len(nn)]
       [] f = "min"    -> IF nn = <<>> THEN NullV ELSE MinV(Tail(nn), Head(nn))
       [] f = "max"    -> IF nn = <<>> THEN NullV ELSE MaxV(Tail(nn), Head(nn))

KeyOf(q, r) == [i \in 1..Len(q.group) |-> Eval(q.group[i], r)]
SameKey(a, b) == \A i \in 1..Len(a) : OrdEq(a[i], b[i])
RECURSIVE DistinctBy(_, _)
\* first occurrence of every equivalence class of rows under SameKey
DistinctBy(rows, seen) ==
  IF rows = <<>> THEN <<>>
  ELSE IF \E s \in seen : SameKey(s, Head(rows)) THEN DistinctBy(Tail(rows), seen)
       ELSE <<Head(rows)>> \o DistinctBy(Tail(rows), seen \cup {Head(rows)})

ProjRow(q, r, key, grp) ==
  [j \in 1..Len(q.proj) |->
     LET p == q.proj[j] IN
     CASE p.k = "e"   -> Eval(p.e, r)
       [] p.k = "grp" -> key[p.i]
       [] p.k = "agg" -> Agg(p.f, p.e, grp)]

Projected(q, T) ==
  LET src == Source(q, T) IN
  IF ~q.agg THEN [i \in 1..Len(src) |-> ProjRow(q, src[i], <<>>, <<>>)]
  ELSE IF q.group = <<>> THEN << ProjRow(q, <<>>, <<>>, src) >>                       \* one row even for empty input
  ELSE LET keys == DistinctBy([i \in 1..Len(src) |-> KeyOf(q, src[i])], {})
       IN [g \in 1..Len(keys) |->
             ProjRow(q, <<>>, keys[g], SelectSeq(src, LAMBDA r : SameKey(KeyOf(q, r), keys[g])))]

ProjErr(q, T) == \E r \in Range(Projected(q, T)) : \E j \in 1..Len(r) : IsErr(r[j])
Full(q, T) == IF q.distinct THEN DistinctBy(Projected(q, T), {}) ELSE Projected(q, T)

(* ---------------- bags, order, limit ---------------- *)
\* equality of result values: an opaque double matches any double the engine printed
ValEq(e, o) == IF e.t = "x" THEN o.t \in {"x", "f"} ELSE e = o
RowEq(e, o) == Len(e) = Len(o) /\ \A j \in 1..Len(e) : ValEq(e[j], o[j])
CountIn(s, r) == Cardinality({i \in 1..Len(s) : RowEq(s[i], r)})
\* exp (may contain opaque values) and obs are the same bag
BagEq(exp, obs) == /\ Len(exp) = Len(obs)
                   /\ \A i \in 1..Len(exp) : Cardinality({j \in 1..Len(exp) : exp[j] = exp[i]}) = CountIn(obs, exp[i])
                   /\ \A i \in 1..Len(obs) : \E j \in 1..Len(exp) : RowEq(exp[j], obs[i])
SubBag(obs, exp) == \A i \in 1..Len(obs) : Cardinality({j \in 1..Len(obs) : obs[j] = obs[i]}) <= CountIn(exp, obs[i])
                                           \/ (\E j \in 1..Len(obs[i]) : obs[i][j].t \in {"x"})

RECURSIVE KeyLeq(_, _, _)
\* lexicographic comparison by the ORDER BY items (NULL largest; DESC reverses)
KeyLeq(a, b, ord) ==
  IF ord = <<>> THEN TRUE
  ELSE LET o == Head(ord) x == a[o.i] y == b[o.i] IN
       IF OrdEq(x, y) THEN KeyLeq(a, b, Tail(ord))
       ELSE IF o.asc THEN OrdLeq(x, y) ELSE OrdLeq(y, x)
Sorted(s, ord) == \A i \in 1..(Len(s) - 1) : KeyLeq(s[i], s[i + 1], ord)
TotalOrder(s, ord) == \A i, j \in 1..Len(s) : i # j => ~(KeyLeq(s[i], s[j], ord) /\ KeyLeq(s[j], s[i], ord))

RECURSIVE InsertSorted(_, _, _)
InsertSorted(r, s, ord) == IF s = <<>> THEN <<r>>
                           ELSE IF KeyLeq(r, Head(s), ord) THEN <<r>> \o s ELSE <<Head(s)>> \o InsertSorted(r, Tail(s), ord)
RECURSIVE SortBy(_, _)
SortBy(s, ord) == IF s = <<>> THEN <<>> ELSE InsertSorted(Head(s), SortBy(Tail(s), ord), ord)

Min2(a, b) == IF a < b THEN a ELSE b
Max2(a, b) == IF a > b THEN a ELSE b
Window(s, off, lim) == LET lo == Min2(off, Len(s)) + 1
                           hi == IF lim < 0 THEN Len(s) ELSE Min2(Len(s), off + lim)
                       IN SubSeq(s, lo, hi)

(* obs is an admissible answer of q on T *)
Admissible(q, T, obs) ==
  LET full == Full(q, T)
      n    == Len(Window(full, q.offset, q.limit))
  IN IF q.order = <<>>
     THEN IF q.limit < 0 /\ q.offset = 0 THEN BagEq(full, obs)
          ELSE Len(obs) = n /\ SubBag(obs, full)                                       \* any n rows of the answer
     ELSE IF q.limit < 0 /\ q.offset = 0 THEN BagEq(full, obs) /\ Sorted(obs, q.order)
          ELSE IF TotalOrder(full, q.order)
               THEN LET w == Window(SortBy(full, q.order), q.offset, q.limit)
                    IN Len(w) = Len(obs) /\ \A i \in 1..Len(w) : RowEq(w[i], obs[i])
               ELSE Len(obs) = n /\ SubBag(obs, full) /\ Sorted(obs, q.order)          \* ties: weaker check
SelectErr(q, T) == IF WhereErr(q, T) THEN TRUE ELSE ProjErr(q, T)
=============================================================================
