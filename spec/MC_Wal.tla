------------------------------ MODULE MC_Wal ------------------------------
(* Exhaustive design check of Wal.tla with small constants (C17, level M).  *)
EXTENDS Wal
CONSTANTS Sizes, MaxRecs
MCPush   == \E sz \in Sizes : Len(appended) < MaxRecs /\ Push([lsn |-> nextLsn, size |-> sz, tag |-> 0])
MCNext   == MCPush \/ Force \/ Truncate \/ CrashOpen \/ CloseOpen
MCSpec   == Init /\ [][MCNext]_vars
=============================================================================
