------------------------------- MODULE SqlEval -------------------------------
(* Reference semantics of SQL scalar expressions (C05): three-valued logic,     *)
(* comparison, arithmetic on integers, text as sequences of code points.        *)
(* Values are tagged records:                                                    *)
(*   [t |-> "n"]                NULL                                             *)
(*   [t |-> "i", v |-> Int]     INT / BIGINT / COUNT results                     *)
(*   [t |-> "f", v |-> Int]     DOUBLE carried as twice its value (halves only)  *)
(*   [t |-> "b", v |-> BOOLEAN]                                                  *)
(*   [t |-> "s", v |-> Seq(Nat)] TEXT as code points                             *)
(*   [t |-> "s", v |-> <<c>>, rep |-> n]  a run of n >= 256 copies of one character *)
(*   [t |-> "x", v |-> STRING]  a double TLC cannot carry (opaque)               *)
(*   [t |-> "e"]                evaluation error (division by zero)              *)
(* Every predicate is written with IF/THEN/ELSE: TLC evaluates all disjuncts of  *)
(* an action-level disjunction, so partial predicates must not appear there.     *)
EXTENDS Integers, Sequences, FiniteSets, TLC

NullV == [t |-> "n"]
ErrV  == [t |-> "e"]
B(b)  == [t |-> "b", v |-> b]
I(i)  == [t |-> "i", v |-> i]
F2(i) == [t |-> "f", v |-> i]
IsNull(x) == x.t = "n"
IsErr(x)  == x.t = "e"
IsTrue(x) == IF x.t = "b" THEN x.v ELSE FALSE
IsNum(x)  == x.t \in {"i", "f"}
Twice(x)  == IF x.t = "i" THEN 2 * x.v ELSE x.v          \* numeric value * 2

RECURSIVE SeqCmp(_, _)
SeqCmp(a, b) == IF a = <<>> THEN (IF b = <<>> THEN 0 ELSE -1)
                ELSE IF b = <<>> THEN 1
                ELSE IF Head(a) < Head(b) THEN -1
                ELSE IF Head(a) > Head(b) THEN 1
                ELSE SeqCmp(Tail(a), Tail(b))

(* total comparison of two non-NULL values of comparable classes: -1, 0, 1 *)
\* an opaque double [t |-> "x", fl |-> floor(2v)] is not a multiple of 1/2, so it lies strictly between fl and fl + 1 (in
\* halves): that orders it against every exact number and against opaque values with another fl; 3 = order unknown
IsOpq(x) == x.t = "x"
HasFl(x) == "fl" \in DOMAIN x
Cmp3(a, b) ==
  IF (IsOpq(a) /\ (IsOpq(b) \/ IsNum(b))) \/ (IsOpq(b) /\ IsNum(a)) THEN
     (IF (IsOpq(a) /\ ~HasFl(a)) \/ (IsOpq(b) /\ ~HasFl(b)) THEN 3
      ELSE IF IsOpq(a) /\ IsOpq(b) THEN (IF a.fl < b.fl THEN -1 ELSE IF a.fl > b.fl THEN 1 ELSE 3)
      ELSE IF IsOpq(a) THEN (IF a.fl < Twice(b) THEN -1 ELSE 1)
      ELSE (IF Twice(a) <= b.fl THEN -1 ELSE 1))
  ELSE IF IsNum(a) /\ IsNum(b) THEN (IF Twice(a) < Twice(b) THEN -1 ELSE IF Twice(a) = Twice(b) THEN 0 ELSE 1)
  ELSE IF a.t = "s" /\ b.t = "s" THEN
          \* a long run of one character is carried as [v |-> <<c>>, rep |-> length]: two runs compare by (c, length)
          IF "rep" \in DOMAIN a \/ "rep" \in DOMAIN b
          THEN (IF "rep" \in DOMAIN a /\ "rep" \in DOMAIN b
                THEN (IF a.v[1] # b.v[1] THEN (IF a.v[1] < b.v[1] THEN -1 ELSE 1)
                      ELSE IF a.rep < b.rep THEN -1 ELSE IF a.rep = b.rep THEN 0 ELSE 1)
                ELSE 2)
          ELSE SeqCmp(a.v, b.v)
  ELSE IF a.t = "b" /\ b.t = "b" THEN (IF a.v = b.v THEN 0 ELSE IF b.v THEN -1 ELSE 1)
  ELSE IF a = b THEN 0 ELSE 2                              \* incomparable classes: not equal, no order

(* LIKE: % = any sequence, _ = one code point *)
RECURSIVE LikeM(_, _)
LikeM(s, p) ==
  IF p = <<>> THEN s = <<>>
  ELSE IF Head(p) = 37 THEN (IF LikeM(s, Tail(p)) THEN TRUE ELSE IF s = <<>> THEN FALSE ELSE LikeM(Tail(s), p))
  ELSE IF s = <<>> THEN FALSE
  ELSE IF Head(p) = 95 THEN LikeM(Tail(s), Tail(p))
  ELSE IF Head(p) = Head(s) THEN LikeM(Tail(s), Tail(p)) ELSE FALSE

Not3(a) == IF IsErr(a) THEN ErrV ELSE IF IsNull(a) THEN NullV ELSE B(~a.v)
And3(a, b) == IF IsErr(a) \/ IsErr(b) THEN ErrV
              ELSE IF (a.t = "b" /\ ~a.v) \/ (b.t = "b" /\ ~b.v) THEN B(FALSE)
              ELSE IF IsNull(a) \/ IsNull(b) THEN NullV ELSE B(TRUE)
Or3(a, b)  == IF IsErr(a) \/ IsErr(b) THEN ErrV
              ELSE IF IsTrue(a) \/ IsTrue(b) THEN B(TRUE)
              ELSE IF IsNull(a) \/ IsNull(b) THEN NullV ELSE B(FALSE)

CmpOp(op, a, b) ==
  IF IsErr(a) \/ IsErr(b) THEN ErrV
  ELSE IF IsNull(a) \/ IsNull(b) THEN NullV
  ELSE LET c == Cmp3(a, b) IN
       B(CASE op = "eq" -> c = 0 [] op = "ne" -> c # 0 [] op = "lt" -> c = -1
           [] op = "le" -> c \in {-1, 0} [] op = "gt" -> c = 1 [] op = "ge" -> c \in {0, 1})

(* integer arithmetic, truncating division like Rust's *)
TDiv(a, b) == IF (a >= 0) = (b > 0) THEN (IF a >= 0 THEN a \div b ELSE (-a) \div (-b))
              ELSE (IF a >= 0 THEN -(a \div (-b)) ELSE -((-a) \div b))
TMod(a, b) == a - b * TDiv(a, b)
Arith(op, a, b) ==
  IF IsErr(a) \/ IsErr(b) THEN ErrV
  ELSE IF IsNull(a) \/ IsNull(b) THEN NullV
  ELSE IF op = "cat" THEN [t |-> "s", v |-> a.v \o b.v]
  ELSE IF op \in {"div", "mod"} /\ b.v = 0 THEN ErrV
  ELSE I(CASE op = "add" -> a.v + b.v [] op = "sub" -> a.v - b.v [] op = "mul" -> a.v * b.v
           [] op = "div" -> TDiv(a.v, b.v) [] op = "mod" -> TMod(a.v, b.v))

RECURSIVE Eval(_, _)
RECURSIVE InList(_, _, _)
\* x IN (list): TRUE if some element equals x, else NULL if x or some element is NULL, else FALSE
InList(x, list, row) ==
  IF list = <<>> THEN B(FALSE)
  ELSE LET h == CmpOp("eq", x, Eval(Head(list), row)) r == InList(x, Tail(list), row) IN Or3(h, r)

Eval(e, row) ==
  CASE e.k = "lit"  -> e.v
    [] e.k = "col"  -> IF e.i \in DOMAIN row THEN row[e.i] ELSE ErrV
    [] e.k = "not"  -> Not3(Eval(e.e, row))
    [] e.k = "neg"  -> LET a == Eval(e.e, row) IN IF a.t \in {"n", "e"} THEN a ELSE [t |-> a.t, v |-> -a.v]
    [] e.k = "and"  -> And3(Eval(e.l, row), Eval(e.r, row))
    [] e.k = "or"   -> Or3(Eval(e.l, row), Eval(e.r, row))
    [] e.k \in {"eq", "ne", "lt", "le", "gt", "ge"} -> CmpOp(e.k, Eval(e.l, row), Eval(e.r, row))
    [] e.k \in {"add", "sub", "mul", "div", "mod", "cat"} -> Arith(e.k, Eval(e.l, row), Eval(e.r, row))
    [] e.k = "isnull"  -> LET a == Eval(e.e, row) IN IF IsErr(a) THEN ErrV ELSE B(IsNull(a) # e.neg)
    [] e.k = "between" -> LET x == Eval(e.e, row) lo == Eval(e.lo, row) hi == Eval(e.hi, row)
                              r == And3(CmpOp("ge", x, lo), CmpOp("le", x, hi))
                          IN IF e.neg THEN Not3(r) ELSE r
    [] e.k = "in"      -> LET r == InList(Eval(e.e, row), e.list, row) IN IF e.neg THEN Not3(r) ELSE r
    [] e.k = "like"    -> LET a == Eval(e.e, row) p == Eval(e.p, row) IN
                          IF IsErr(a) \/ IsErr(p) THEN ErrV
                          ELSE IF IsNull(a) \/ IsNull(p) THEN NullV
                          ELSE B(LikeM(a.v, p.v) # e.neg)

(* order used by ORDER BY / MIN / MAX: NULL is larger than every value *)
OrdLeq(a, b) == IF IsNull(b) THEN TRUE ELSE IF IsNull(a) THEN FALSE ELSE Cmp3(a, b) \in {-1, 0, 3}
OrdEq(a, b)  == IF IsNull(a) \/ IsNull(b) THEN IsNull(a) /\ IsNull(b) ELSE Cmp3(a, b) = 0
=============================================================================
