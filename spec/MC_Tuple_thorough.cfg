SPECIFICATION Spec
CONSTANTS NV = 2  Val = {1, 2}  Tid = {1, 2, 3}  MaxUpd = 2  Dev = {}
INVARIANTS TypeOK ChainRefines StampsRefine WalkIsEntitled
ACTION_CONSTRAINTS TrimPreserves TrimPreservesWalk
CHECK_DEADLOCK FALSE
