---------------------------- MODULE RecoveryIds ----------------------------
(* Object identity across restart recovery (C08, C01): tables are created under ids drawn from a counter in page zero,   *)
(* the rows logged afterwards name their table by that id.  Recovery redoes the committed transactions only - in log       *)
(* order - so it must give every re-created object the id it was logged with: drawing a fresh id from the counter          *)
(* (deviation RedoCreateDrawsFreshObjectId, the engine before fix bd2ed87) gives another id as soon as an object created    *)
(* in between belonged to a transaction that is not redone, and the rows that follow name a table that does not exist:      *)
(* recovery fails and the database does not open.  Bound to the code by the crash driver (sessions that create tables,     *)
(* commit or roll back in any order, crash images at every write): DbTrace.TCrashRead.                                     *)
EXTENDS Naturals, Sequences, FiniteSets, TLC
CONSTANTS Tx, MaxObj, MaxRows, Dev
VARIABLES st,        \* Tx -> "idle" | "active" | "committed" | "aborted" | "lost"
          counter,   \* next object id (page zero; volatile between checkpoints: a crash resets it to the checkpointed value)
          objs,      \* live catalog: set of [id, by]
          rows,      \* live rows: set of [obj, by, n]
          log,       \* durable log: sequence of [ty, t, id]
          disk,      \* what the last checkpoint made durable: [counter, objs, rows]
          pc         \* "run" | "down" | "failed"
vars == <<st, counter, objs, rows, log, disk, pc>>
Rec(ty, t, id) == [ty |-> ty, t |-> t, id |-> id]
Init == /\ st = [t \in Tx |-> "idle"] /\ counter = 0 /\ objs = {} /\ rows = {} /\ log = <<>> /\ pc = "run"
        /\ disk = [counter |-> 0, objs |-> {}, rows |-> {}]

Begin(t) == pc = "run" /\ st[t] = "idle" /\ st' = [st EXCEPT ![t] = "active"] /\ UNCHANGED <<counter, objs, rows, log, disk, pc>>
Create(t) == /\ pc = "run" /\ st[t] = "active" /\ counter < MaxObj
             /\ objs' = objs \cup {[id |-> counter, by |-> t]} /\ counter' = counter + 1
             /\ log' = Append(log, Rec("create", t, counter)) /\ UNCHANGED <<st, rows, disk, pc>>
Visible(t, o) == o.by = t \/ st[o.by] = "committed"
Insert(t) == /\ pc = "run" /\ st[t] = "active" /\ Cardinality(rows) < MaxRows
             /\ \E o \in objs : /\ Visible(t, o)
                                /\ rows' = rows \cup {[obj |-> o.id, by |-> t, n |-> Cardinality(rows)]}
                                /\ log' = Append(log, Rec("row", t, o.id))
             /\ UNCHANGED <<st, counter, objs, disk, pc>>
Commit(t) == pc = "run" /\ st[t] = "active" /\ st' = [st EXCEPT ![t] = "committed"]
             /\ log' = Append(log, Rec("commit", t, 0)) /\ UNCHANGED <<counter, objs, rows, disk, pc>>
Rollback(t) == /\ pc = "run" /\ st[t] = "active" /\ st' = [st EXCEPT ![t] = "aborted"]
               /\ objs' = {o \in objs : o.by # t} /\ rows' = {r \in rows : r.by # t}
               /\ log' = Append(log, Rec("abort", t, 0)) /\ UNCHANGED <<counter, disk, pc>>
\* a checkpoint between transactions: the live state becomes the durable one, the log starts again
Checkpoint == /\ pc = "run" /\ \A t \in Tx : st[t] # "active"
              /\ disk' = [counter |-> counter, objs |-> objs, rows |-> rows] /\ log' = <<>>
              /\ UNCHANGED <<st, counter, objs, rows, pc>>
\* the file is as the last checkpoint left it, the log holds everything since
Crash == /\ pc = "run" /\ pc' = "down" /\ objs' = disk.objs /\ rows' = disk.rows /\ counter' = disk.counter
         /\ st' = [t \in Tx |-> IF st[t] = "active" THEN "lost" ELSE st[t]] /\ UNCHANGED <<log, disk>>

Winners == {t \in Tx : \E i \in 1..Len(log) : log[i].ty = "commit" /\ log[i].t = t}
\* redo in log order; result: [ok, counter, objs, rows]
RECURSIVE Redo(_, _)
Redo(i, s) ==
  IF i > Len(log) \/ ~s.ok THEN s
  ELSE LET r == log[i] IN
       IF r.t \notin Winners THEN Redo(i + 1, s)
       ELSE IF r.ty = "create"
            THEN LET id == IF "RedoCreateDrawsFreshObjectId" \in Dev THEN s.counter ELSE r.id
                 IN Redo(i + 1, [s EXCEPT !.objs = @ \cup {[id |-> id, by |-> r.t]},
                                          !.counter = IF id + 1 > @ THEN id + 1 ELSE @])
            ELSE IF r.ty = "row"
                 THEN IF \E o \in s.objs : o.id = r.id
                      THEN Redo(i + 1, [s EXCEPT !.rows = @ \cup {[obj |-> r.id, by |-> r.t, n |-> Cardinality(@)]}])
                      ELSE [s EXCEPT !.ok = FALSE]                  \* 'catalog error Table not found <id>'
                 ELSE Redo(i + 1, s)
Recover == /\ pc = "down"
           /\ LET s == Redo(1, [ok |-> TRUE, counter |-> counter, objs |-> objs, rows |-> rows])
              IN /\ pc' = IF s.ok THEN "run" ELSE "failed"
                 /\ objs' = s.objs /\ rows' = s.rows /\ counter' = s.counter
                 \* recovery ends with a checkpoint
                 /\ disk' = IF s.ok THEN [counter |-> s.counter, objs |-> s.objs, rows |-> s.rows] ELSE disk
                 /\ log' = IF s.ok THEN <<>> ELSE log
           /\ UNCHANGED st
Next == (\E t \in Tx : Begin(t) \/ Create(t) \/ Insert(t) \/ Commit(t) \/ Rollback(t)) \/ Checkpoint \/ Crash \/ Recover
Spec == Init /\ [][Next]_vars

Bounded == Len(log) <= 7
\* C08: the database always reopens
AlwaysOpens == pc # "failed"
\* C01 + C02 on the catalog: while the engine runs, every committed object is there under one id, no two objects share an id,
\* and every row sits in an object that exists
Coherent == pc = "run" => /\ \A a, b \in objs : a.id = b.id => a = b
                          /\ \A r \in rows : \E o \in objs : o.id = r.obj
=============================================================================
