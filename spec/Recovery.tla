----------------------------- MODULE Recovery -----------------------------
(* Durability layer of AxmosDB: volatile cache and log tail, durable pages, *)
(* page-zero header and log, checkpoint, eviction, crash, restart recovery. *)
(* One action per critical section; checkpoint and recovery are split into  *)
(* the steps between which the process can die.                             *)
EXTENDS Naturals, Sequences, FiniteSets, TLC
CONSTANTS Tx, Keys, MaxWrites, MaxCrashes, MaxCkpts, Dev

VARIABLES st,        \* Tx -> "idle" | "active" | "committing" | "committed" | "aborted" | "lost"
          known,     \* volatile: transactions the running engine treats as committed
          cache,     \* Keys -> page (sequence of versions [val, by], newest first) or NoPage
          dirty,     \* set of keys whose cached page differs from disk
          disk,      \* Keys -> page
          hdr,       \* durable page zero: set of transactions recorded as committed
          log,       \* sequence of records; log[1..dur] is durable
          dur,
          pc,        \* "run" | "ck1".."ck3" (inside checkpoint) | "down" | "rec0".."rec3" (inside recovery)
          acked,     \* ghost: transactions whose COMMIT returned
          order,     \* ghost: commit order of the transactions that must be visible
          ops,       \* ghost: Tx -> sequence of [k, v]
          crashes, ckpts
vars == <<st, known, cache, dirty, disk, hdr, log, dur, pc, acked, order, ops, crashes, ckpts>>

NoPage == <<[val |-> 0, by |-> 0]>>      \* sentinel: not cached
Empty  == <<>>
D(d) == d \in Dev
\* as-built deviations
AbortAsCommit   == D("AbortLoggedAsCommit")            \* runtime/context.rs:127
RecTruncEarly   == D("TruncateBeforeRecoveredPagesDurable") \* lib.rs:325 truncates, pages flushed much later
StealNoForce    == D("StealWithoutLogForce")           \* pager.rs:415 evicts without forcing the log
RecLogsReplay   == D("RecoveryLogsReplay")             \* lib.rs run_recovery: the executors replaying the log logged again, under
                                                       \* the recovery transaction RecR, which never commits (repaired: silent logger)
RecR == 0                                              \* the recovery transaction (not in Tx)
\* seeded design mutations (not in the code; used to show the properties bite)
AckNoForce      == D("MUT_AckWithoutForce")
CkTruncFirst    == D("MUT_CheckpointTruncatesFirst")

Init == /\ st = [t \in Tx |-> "idle"] /\ known = {}
        /\ cache = [k \in Keys |-> NoPage] /\ dirty = {} /\ disk = [k \in Keys |-> Empty] /\ hdr = {}
        /\ log = <<>> /\ dur = 0 /\ pc = "run"
        /\ acked = {} /\ order = <<>> /\ ops = [t \in Tx |-> <<>>] /\ crashes = 0 /\ ckpts = 0

Page(k) == IF cache[k] = NoPage THEN disk[k] ELSE cache[k]
Rec(ty, t, k, v) == [ty |-> ty, t |-> t, k |-> k, v |-> v]
AnyKey == CHOOSE k \in Keys : TRUE
Has(ty, t, upto) == \E i \in 1..upto : log[i].ty = ty /\ log[i].t = t

(* ------------------------------ normal run ------------------------------ *)
Begin(t) == /\ pc = "run" /\ st[t] = "idle"
            /\ st' = [st EXCEPT ![t] = "active"]
            /\ log' = Append(log, Rec("begin", t, AnyKey, 0))
            /\ UNCHANGED <<known, cache, dirty, disk, hdr, dur, pc, acked, order, ops, crashes, ckpts>>

\* write-write conflicts are the business of Txn.tla; here concurrent transactions touch disjoint keys
Busy(t, k) == \E u \in Tx \ {t} : st[u] \in {"active", "committing"} /\ \E i \in 1..Len(ops[u]) : ops[u][i].k = k
Write(t, k) == /\ pc = "run" /\ st[t] = "active" /\ Len(ops[t]) < MaxWrites /\ ~Busy(t, k)
               /\ cache' = [cache EXCEPT ![k] = <<[val |-> t, by |-> t]>> \o Page(k)]
               /\ dirty' = dirty \cup {k}
               /\ log' = Append(log, Rec("upd", t, k, t))
               /\ ops' = [ops EXCEPT ![t] = Append(@, [k |-> k, v |-> t])]
               /\ UNCHANGED <<st, known, disk, hdr, dur, pc, acked, order, crashes, ckpts>>

LogCommit(t) == /\ pc = "run" /\ st[t] = "active"
                /\ st' = [st EXCEPT ![t] = "committing"]
                /\ log' = Append(log, Rec("commit", t, AnyKey, 0))
                /\ UNCHANGED <<known, cache, dirty, disk, hdr, dur, pc, acked, order, ops, crashes, ckpts>>

ForceLog == /\ pc = "run" /\ dur < Len(log)
            /\ dur' = Len(log)
            /\ UNCHANGED <<st, known, cache, dirty, disk, hdr, log, pc, acked, order, ops, crashes, ckpts>>

Ack(t) == /\ pc = "run" /\ st[t] = "committing"
          /\ AckNoForce \/ Has("commit", t, dur)            \* log_end forces before the call returns
          /\ st' = [st EXCEPT ![t] = "committed"]
          /\ known' = known \cup {t} /\ acked' = acked \cup {t} /\ order' = Append(order, t)
          /\ UNCHANGED <<cache, dirty, disk, hdr, log, dur, pc, ops, crashes, ckpts>>

Rollback(t) == /\ pc = "run" /\ st[t] = "active"
               /\ st' = [st EXCEPT ![t] = "aborted"]
               /\ log' = Append(log, Rec(IF AbortAsCommit THEN "commit" ELSE "abort", t, AnyKey, 0))
               /\ dur' = Len(log) + 1                          \* abort_transaction ends with log_end -> force
               /\ UNCHANGED <<known, cache, dirty, disk, hdr, pc, acked, order, ops, crashes, ckpts>>

Evict(k) == /\ pc = "run" /\ cache[k] # NoPage
            /\ StealNoForce \/ k \notin dirty \/ \A i \in 1..Len(log) : log[i].ty = "upd" /\ log[i].k = k => i <= dur
            /\ disk' = IF k \in dirty THEN [disk EXCEPT ![k] = cache[k]] ELSE disk
            /\ cache' = [cache EXCEPT ![k] = NoPage] /\ dirty' = dirty \ {k}
            /\ UNCHANGED <<st, known, hdr, log, dur, pc, acked, order, ops, crashes, ckpts>>

(* ------------- checkpoint = Pager::flush, four crashable steps ---------- *)
WritePages == [k \in Keys |-> IF k \in dirty THEN cache[k] ELSE disk[k]]
CkStart == /\ pc = "run" /\ ckpts < MaxCkpts /\ \A t \in Tx : st[t] # "committing"
           /\ ckpts' = ckpts + 1
           /\ IF CkTruncFirst THEN log' = <<>> /\ dur' = 0 ELSE log' = log /\ dur' = Len(log)
           /\ pc' = "ck1"
           /\ UNCHANGED <<st, known, cache, dirty, disk, hdr, acked, order, ops, crashes>>
CkPages == /\ pc = "ck1" /\ disk' = WritePages /\ dirty' = {} /\ pc' = "ck2"
           /\ UNCHANGED <<st, known, cache, hdr, log, dur, acked, order, ops, crashes, ckpts>>
CkHeader == /\ pc = "ck2" /\ hdr' = known /\ pc' = "ck3"
            /\ UNCHANGED <<st, known, cache, dirty, disk, log, dur, acked, order, ops, crashes, ckpts>>
CkTruncate == /\ pc = "ck3" /\ log' = <<>> /\ dur' = 0 /\ pc' = "run"
              /\ UNCHANGED <<st, known, cache, dirty, disk, hdr, acked, order, ops, crashes, ckpts>>

(* --------------------------------- crash -------------------------------- *)
\* a commit in flight counts as committed iff its record reached the disk
RECURSIVE InDoubt(_, _)
InDoubt(i, n) == IF i > n THEN <<>>
                 ELSE (IF log[i].ty = "commit" /\ st[log[i].t] = "committing" THEN <<log[i].t>> ELSE <<>>) \o InDoubt(i + 1, n)
Crash == /\ pc # "down" /\ crashes < MaxCrashes
         /\ crashes' = crashes + 1 /\ pc' = "down"
         /\ order' = order \o InDoubt(1, dur)
         /\ st' = [t \in Tx |-> IF st[t] \in {"active", "committing"} THEN "lost" ELSE st[t]]
         /\ cache' = [k \in Keys |-> NoPage] /\ dirty' = {}
         /\ log' = SubSeq(log, 1, dur) /\ known' = {}
         /\ UNCHANGED <<disk, hdr, dur, acked, ops, ckpts>>

(* ------------------ restart: analysis, undo, redo, truncate -------------- *)
Winners == {t \in Tx : Has("commit", t, Len(log))}
Losers  == {t \in Tx : Has("begin", t, Len(log))} \ Winners
Strip(p, ts) == SelectSeq(p, LAMBDA x : x.by \notin ts)
\* RecoveryLogsReplay: what an earlier, interrupted recovery logged under RecR is the work of a loser - undoing it removes
\* the very versions the winners wrote (a replayed "upd" of value v is the version [val v, by v])
Copied(k, x) == \E i \in 1..Len(log) : log[i].ty = "upd" /\ log[i].t = RecR /\ log[i].k = k /\ log[i].v = x.val
UndoCopies(pages) == [k \in Keys |-> SelectSeq(pages[k], LAMBDA x : ~Copied(k, x))]
RECURSIVE Copies(_)
Copies(i) == IF i > Len(log) THEN <<>>
             ELSE (IF log[i].ty = "upd" /\ log[i].t \in Winners THEN <<Rec("upd", RecR, log[i].k, log[i].v)>> ELSE <<>>) \o Copies(i + 1)
RECURSIVE Redo(_, _)
Redo(pages, i) ==
  IF i > Len(log) THEN pages
  ELSE LET r == log[i] IN
       IF r.ty = "upd" /\ r.t \in Winners /\ ~\E j \in 1..Len(pages[r.k]) : pages[r.k][j].by = r.t /\ pages[r.k][j].val = r.v
       THEN Redo([pages EXCEPT ![r.k] = <<[val |-> r.v, by |-> r.t]>> \o @], i + 1)
       ELSE Redo(pages, i + 1)
\* the code redoes the winners first and undoes the losers afterwards (io/recovery.rs run_recovery)
RecApply == /\ pc = "down"
            /\ LET redone == Redo(disk, 1)
                   undone == [k \in Keys |-> Strip(redone[k], Losers)]
               IN cache' = IF RecLogsReplay THEN UndoCopies(undone) ELSE undone
            /\ log' = IF RecLogsReplay THEN log \o <<Rec("begin", RecR, AnyKey, 0)>> \o Copies(1) ELSE log
            /\ dirty' = Keys /\ known' = hdr \cup Winners
            /\ pc' = "rec0"
            /\ UNCHANGED <<st, disk, hdr, dur, acked, order, ops, crashes, ckpts>>
\* the checkpoint that ends recovery forces the log before it writes pages (Pager::flush)
RecForce == /\ pc = "rec0" /\ dur' = Len(log) /\ pc' = "rec1"
            /\ UNCHANGED <<st, known, cache, dirty, disk, hdr, log, acked, order, ops, crashes, ckpts>>
\* ideal: make the recovered pages and header durable, then truncate; as built: truncate first
RecPages == /\ pc = "rec1" /\ ~RecTruncEarly /\ disk' = WritePages /\ dirty' = {} /\ pc' = "rec2"
            /\ UNCHANGED <<st, known, cache, hdr, log, dur, acked, order, ops, crashes, ckpts>>
RecHeader == /\ pc = "rec2" /\ hdr' = known /\ pc' = "rec3"
             /\ UNCHANGED <<st, known, cache, dirty, disk, log, dur, acked, order, ops, crashes, ckpts>>
RecTruncate == /\ pc = IF RecTruncEarly THEN "rec1" ELSE "rec3"
               /\ log' = <<>> /\ dur' = 0 /\ pc' = "run"
               /\ UNCHANGED <<st, known, cache, dirty, disk, hdr, acked, order, ops, crashes, ckpts>>

Next == \/ \E t \in Tx : Begin(t) \/ LogCommit(t) \/ Ack(t) \/ Rollback(t) \/ \E k \in Keys : Write(t, k)
        \/ ForceLog \/ (\E k \in Keys : Evict(k))
        \/ CkStart \/ CkPages \/ CkHeader \/ CkTruncate
        \/ Crash \/ RecApply \/ RecForce \/ RecPages \/ RecHeader \/ RecTruncate
Spec == Init /\ [][Next]_vars

(* ------------------------------ properties ------------------------------ *)
Newest(p) == LET q == SelectSeq(p, LAMBDA x : x.by \in known) IN IF q = <<>> THEN 0 ELSE q[1].val
View == [k \in Keys |-> Newest(Page(k))]
RECURSIVE ApplyW(_, _)
ApplyW(m, s) == IF s = <<>> THEN m ELSE ApplyW([m EXCEPT ![Head(s).k] = Head(s).v], Tail(s))
RECURSIVE ApplyT(_, _)
ApplyT(m, o) == IF o = <<>> THEN m ELSE ApplyT(ApplyW(m, ops[Head(o)]), Tail(o))
Expected == ApplyT([k \in Keys |-> 0], order)

Durable   == pc = "run" => \A t \in acked : \A i \in 1..Len(ops[t]) :              \* C01
                 \E j \in 1..Len(Page(ops[t][i].k)) : Page(ops[t][i].k)[j].by = t /\ t \in known
ExactState == pc = "run" => View = Expected                                         \* C01 + C02 (+ C08 convergence)
=============================================================================
