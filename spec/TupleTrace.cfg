SPECIFICATION TSpec
CONSTANTS NV = 12  Dev = {"UpdateStampsCreator", "OwnDeleteOfUpdatedRow", "DeltaWalkIgnoresOwn", "TrimCutsAtFirstOld"}
INVARIANT ChainOk
POSTCONDITION Accepted
CHECK_DEADLOCK FALSE
