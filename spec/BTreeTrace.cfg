SPECIFICATION TSpec
CONSTANTS Dev = {}
POSTCONDITION Accepted
CHECK_DEADLOCK FALSE
