SPECIFICATION TSpec
CONSTANTS Dev = {"NumericCompareViaF64", "NaNNotReflexive", "NegZeroHashDiffers", "SqlNumericLiteralViaF64"}
POSTCONDITION Accepted
CHECK_DEADLOCK FALSE
