SPECIFICATION TSpec
CONSTANTS Dev = {"SqlNumericLiteralViaF64"}
POSTCONDITION Accepted
CHECK_DEADLOCK FALSE
