SPECIFICATION TSpec
CONSTANTS Dev = {"NaNNotReflexive", "SqlNumericLiteralViaF64"}
POSTCONDITION Accepted
CHECK_DEADLOCK FALSE
