SPECIFICATION Spec
CONSTANTS Dev = {"NumericCompareViaF64"}  Ranks = {1, 2, 3}
INVARIANT Laws
CHECK_DEADLOCK FALSE
