SPECIFICATION Spec
CONSTANTS
  Tx = {1, 2}
  Keys = {"a", "b"}
  Vals = {1, 2}
  MaxOps = 2
  Dev = {}
INVARIANTS SnapshotRead RollbackInvisible FirstCommitterWins UniqueHolds
CHECK_DEADLOCK FALSE
