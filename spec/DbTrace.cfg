SPECIFICATION TSpec
CONSTANT Dev = {"UpdateStampsCreator", "NoWriteSetValidation", "CheckpointNotAtomic", "DropNotAtomic"}
INVARIANT UniqueHolds
POSTCONDITION Accepted
CHECK_DEADLOCK FALSE
