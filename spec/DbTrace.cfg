SPECIFICATION TSpec
CONSTANT Dev = {"UpdateStampsCreator", "NoWriteSetValidation", "CheckpointNotAtomic"}
INVARIANT UniqueHolds
POSTCONDITION Accepted
CHECK_DEADLOCK FALSE
