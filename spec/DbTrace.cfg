SPECIFICATION TSpec
CONSTANT Dev = {"UpdateStampsCreator", "NoWriteSetValidation"}
INVARIANT UniqueHolds
POSTCONDITION Accepted
CHECK_DEADLOCK FALSE
