SPECIFICATION Spec
CONSTANTS Workers = {"w1", "w2"}  Callers = {"c1", "c2", "c3"}  MaxPanics = 2  Dev = {}
INVARIANT NoWorkerLost
PROPERTY EveryCallEnds
CHECK_DEADLOCK FALSE
