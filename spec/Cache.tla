-------------------------------- MODULE Cache --------------------------------
(* The page cache between the trees and the file (io/cache.rs, io/pager.rs): a bounded set of frames, clock eviction of   *)
(* frames nobody holds, write-back of dirty victims, checkpoint.  `truth` is what each page must read as - the last value  *)
(* written through the cache.  Whatever the capacity and however reads, writes, pins and evictions interleave, a page reads *)
(* as its truth (C12: the cache size changes performance, never results), unless every frame is pinned, in which case the   *)
(* access fails cleanly (finding SmallCacheFailsStatements) and nothing changes.                                            *)
EXTENDS Integers, FiniteSets, TLC
CONSTANTS Pages, Vals, Cap, MaxPins, Dev
VARIABLES disk, frames, truth, failed
cvars == <<disk, frames, truth, failed>>
\* frames: cached page -> [val, dirty, pins]
Cached == DOMAIN frames
Free(p) == frames[p].pins = 0
Init == /\ disk = [p \in Pages |-> 0] /\ frames = << >> /\ truth = [p \in Pages |-> 0] /\ failed = FALSE
\* the victim's content goes to its own place in the file (design mutation: to another page's place - a wrong block size)
WriteBack(d, p) == IF "EvictWritesElsewhere" \in Dev
                   THEN [d EXCEPT ![CHOOSE q \in Pages : q # p] = frames[p].val]
                   ELSE [d EXCEPT ![p] = frames[p].val]
\* room for one more frame: nothing to do, or a free frame is evicted (dirty ones are written back first)
MakeRoom(then(_, _)) ==
  IF Cardinality(Cached) < Cap THEN then(disk, frames)
  ELSE \E v \in Cached : /\ Free(v)
                         /\ LET d == IF frames[v].dirty /\ "EvictDropsDirty" \notin Dev THEN WriteBack(disk, v) ELSE disk
                                f == [q \in Cached \ {v} |-> frames[q]]
                            IN then(d, f)
AllPinned == Cardinality(Cached) >= Cap /\ \A v \in Cached : ~Free(v)
\* read_page + latch: the frame is pinned until the statement lets go of it
Pin(p) ==
  /\ ~failed
  /\ IF p \in Cached THEN /\ frames[p].pins < MaxPins
                          /\ frames' = [frames EXCEPT ![p].pins = @ + 1] /\ UNCHANGED <<disk, truth, failed>>
     ELSE IF AllPinned THEN failed' = TRUE /\ UNCHANGED <<disk, frames, truth>>     \* "Buffer pool got out of memory for new frames"
     ELSE /\ MakeRoom(LAMBDA d, f : /\ disk' = d
                                    /\ frames' = [q \in DOMAIN f \cup {p} |-> IF q = p THEN [val |-> d[p], dirty |-> FALSE, pins |-> 1] ELSE f[q]])
          /\ UNCHANGED <<truth, failed>>
Unpin(p) == p \in Cached /\ frames[p].pins > 0 /\ frames' = [frames EXCEPT ![p].pins = @ - 1] /\ UNCHANGED <<disk, truth, failed>>
\* a write goes through a pinned frame
Write(p, v) == /\ p \in Cached /\ frames[p].pins > 0
               /\ frames' = [frames EXCEPT ![p].val = v, ![p].dirty = TRUE]
               /\ truth' = [truth EXCEPT ![p] = v] /\ UNCHANGED <<disk, failed>>
\* Pager::flush: every frame leaves the cache, dirty ones are written
Checkpoint == /\ \A p \in Cached : Free(p)
              /\ disk' = [p \in Pages |-> IF p \in Cached /\ frames[p].dirty THEN frames[p].val ELSE disk[p]]
              /\ frames' = << >> /\ UNCHANGED <<truth, failed>>
Recover == failed /\ failed' = FALSE /\ frames' = [p \in Cached |-> [frames[p] EXCEPT !.pins = 0]] /\ UNCHANGED <<disk, truth>>
Next == \/ \E p \in Pages : Pin(p) \/ Unpin(p) \/ \E v \in Vals : Write(p, v)
        \/ Checkpoint \/ Recover
Spec == Init /\ [][Next]_cvars
Reads(p) == IF p \in Cached THEN frames[p].val ELSE disk[p]
Coherent == \A p \in Pages : Reads(p) = truth[p]
Bounded == Cardinality(Cached) <= Cap
=============================================================================
