SPECIFICATION Spec
CONSTANTS Workers = {"w1", "w2"}  Callers = {"c1", "c2", "c3"}  MaxPanics = 2  Dev = {"WorkerDiesOnPanic"}

PROPERTY EveryCallEnds
CHECK_DEADLOCK FALSE
