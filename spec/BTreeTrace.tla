------------------------------ MODULE BTreeTrace ------------------------------
(* Trace validation for C10: operations on one raw B+tree of the real code (verif::tree facade) with their outcomes,      *)
(* lookups, scans in both directions and page-graph dumps must be a behaviour of BTree.tla: outcomes as the map semantics  *)
(* say, lookups and scans exactly the map, and every dumped graph WellFormed, holding exactly the map, with the code's own *)
(* routing rule finding exactly its keys.  Keys are ranks in the key order, payloads ids.                                 *)
EXTENDS Integers, Sequences, FiniteSets, TLC, Json, IOUtils
CONSTANTS Dev
VARIABLES m, g, last, l
B == INSTANCE BTree WITH Keys <- {}, Vals <- {}, Cap <- 0
tvars == <<m, g, last, l>>
Rec == ndJsonDeserialize(IOEnv.TRACE)
Ev(name) == l <= Len(Rec) /\ Rec[l].ev = name /\ l' = l + 1
Same == UNCHANGED <<m, g, last>>
Put(k, v) == [x \in DOMAIN m \cup {k} |-> IF x = k THEN v ELSE m[x]]
Del(k) == [x \in DOMAIN m \ {k} |-> m[x]]

TInit == m = << >> /\ g = [root |-> 0] /\ last = "init" /\ l = 1
TReset == Ev("reset") /\ m' = << >> /\ UNCHANGED <<g, last>>
TInsert == /\ Ev("insert") /\ UNCHANGED <<g, last>>
           /\ IF Rec[l].k \in DOMAIN m THEN Rec[l].out = "exists" /\ UNCHANGED m
              ELSE Rec[l].out = "ok" /\ m' = Put(Rec[l].k, Rec[l].v)
TUpdate == /\ Ev("update") /\ UNCHANGED <<g, last>>
           /\ IF Rec[l].k \in DOMAIN m THEN Rec[l].out = "ok" /\ m' = Put(Rec[l].k, Rec[l].v)
              ELSE Rec[l].out = "missing" /\ UNCHANGED m
TUpsert == Ev("upsert") /\ Rec[l].out = "ok" /\ m' = Put(Rec[l].k, Rec[l].v) /\ UNCHANGED <<g, last>>
TRemove == /\ Ev("remove") /\ UNCHANGED <<g, last>>
           /\ IF Rec[l].k \in DOMAIN m THEN Rec[l].out = "ok" /\ m' = Del(Rec[l].k)
              ELSE Rec[l].out = "missing" /\ UNCHANGED m
TSearch == /\ Ev("search") /\ Same
           /\ IF Rec[l].k \in DOMAIN m THEN Rec[l].found = TRUE /\ Rec[l].kk = Rec[l].k /\ Rec[l].v = m[Rec[l].k]
              ELSE Rec[l].found = FALSE /\ Rec[l].v = 0
\* a scan returns every entry once, in key order (backward: reverse key order), each with its latest payload
Asc(s)  == \A i \in 1..(Len(s) - 1) : s[i][1] < s[i + 1][1]
Desc(s) == \A i \in 1..(Len(s) - 1) : s[i][1] > s[i + 1][1]
TScan == /\ Ev("scan") /\ Same /\ Rec[l].ok = TRUE
         /\ LET rows == Rec[l].rows IN
              /\ IF Rec[l].backward THEN Desc(rows) ELSE Asc(rows)
              /\ {rows[i][1] : i \in 1..Len(rows)} = DOMAIN m
              /\ \A i \in 1..Len(rows) : rows[i][2] = m[rows[i][1]]
\* the page graph as dumped
GraphOf(e) == [root |-> e.root,
               nodes |-> [id \in {e.nodes[i].id : i \in 1..Len(e.nodes)} |->
                            LET n == e.nodes[CHOOSE i \in 1..Len(e.nodes) : e.nodes[i].id = id] IN
                            [leaf |-> n.leaf, keys |-> n.keys, kids |-> n.kids, next |-> n.next, prev |-> n.prev]]]
TGraph == /\ Ev("graph") /\ UNCHANGED <<m, last>>
          /\ Rec[l].nerrors = 0
          /\ g' = GraphOf(Rec[l])
          /\ B!WellFormed(g')
          /\ B!Holds(g', m)
          /\ \A k \in DOMAIN m : B!Finds(g', k)
\* whole-tree release at the end of an overflow segment
TDealloc == Ev("dealloc") /\ Rec[l].ok = TRUE /\ Same
TNext == TReset \/ TInsert \/ TUpdate \/ TUpsert \/ TRemove \/ TSearch \/ TScan \/ TGraph \/ TDealloc
TSpec == TInit /\ [][TNext]_tvars
Accepted == IF TLCGet("stats").diameter - 1 = Len(Rec) THEN TRUE
            ELSE Print(<<"REJECTED", TLCGet("stats").diameter, ToJson(Rec[TLCGet("stats").diameter])>>, FALSE)
=============================================================================
