----------------------------- MODULE WalReplay -----------------------------
(* Behaviour generator for C17 (spec -> implementation): every operation     *)
(* sequence of length MaxOps over {push(sz) : sz \in Sizes, force, truncate, *)
(* crash, close} with, after every force / reopen, the records the log must  *)
(* read back (as the tags of the pushes that produced them).  Constants are  *)
(* the real byte capacities reported by the facade.  One JSON line per       *)
(* behaviour; the harness replays each through the real WriteAheadLog.       *)
EXTENDS Wal, Json
CONSTANTS Sizes, MaxOps
VARIABLE hist
rvars == <<vars, hist>>

ExpectNow == [j \in 1..forced' |-> appended'[j].tag]
Room == Len(hist) < MaxOps
RPush(sz)  == /\ Room /\ Push([lsn |-> nextLsn, size |-> sz, tag |-> Len(hist) + 1])
              /\ hist' = Append(hist, [op |-> "push", size |-> sz, tag |-> Len(hist) + 1])
RForce     == /\ Room /\ Force     /\ hist' = Append(hist, [op |-> "force", expect |-> ExpectNow])
RTruncate  == /\ Room /\ Truncate  /\ hist' = Append(hist, [op |-> "truncate"])
RCrash     == /\ Room /\ CrashOpen /\ hist' = Append(hist, [op |-> "crash", expect |-> ExpectNow])
RClose     == /\ Room /\ CloseOpen /\ hist' = Append(hist, [op |-> "close", expect |-> ExpectNow])
RNext == (\E sz \in Sizes : RPush(sz)) \/ RForce \/ RTruncate \/ RCrash \/ RClose
RInit == Init /\ hist = <<>>
RSpec == RInit /\ [][RNext]_rvars

\* hist is part of the state: every complete behaviour is its own state and is printed once
Emit == Len(hist) = MaxOps => PrintT(<<"REPLAY", ToJson([ops |-> hist])>>)
Props == ReadBackExact /\ LsnIncreasing
=============================================================================
